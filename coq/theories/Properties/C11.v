(* C11 — Problem and solution documents survive round trips.
   Only the property theorems, each closed by `exact`. *)
From VRP Require Import Base.Tac Base.Json Model.SerdeSem Generated.ProblemCodec Generated.SolutionCodec Proofs.CodecP.
From VRP Require Import Model.Csv Proofs.CsvP Model.InitReader Proofs.InitReaderP.

(* (a) serialise -> parse -> serialise is the identity on the serialised form, for every value of the document types
   (the Coq types are generated from the Rust types: bounded integers, finite floats) *)
Theorem C11_problem_roundtrip : forall p : Problem,
  exists q, dec_Problem (enc_Problem p) = Some q /\ enc_Problem q = enc_Problem p.
Proof. exact problem_roundtrip. Qed.
Theorem C11_problem_reserialise : forall p : Problem, run_problem (enc_Problem p) = Some (enc_Problem p).
Proof. exact problem_reserialise. Qed.
Theorem C11_matrix_roundtrip : forall m : Matrix, dec_Matrix (enc_Matrix m) = Some m.
Proof. exact matrix_roundtrip. Qed.
Theorem C11_matrix_reserialise : forall m : Matrix, run_matrix (enc_Matrix m) = Some (enc_Matrix m).
Proof. exact matrix_reserialise. Qed.
Theorem C11_solution_roundtrip : forall s : Solution, dec_Solution (enc_Solution s) = Some s.
Proof. exact solution_roundtrip. Qed.
Theorem C11_solution_reserialise : forall s : Solution, run_solution (enc_Solution s) = Some (enc_Solution s).
Proof. exact solution_reserialise. Qed.
(* the problem value itself comes back when no optional break carries an empty offset list ... *)
Theorem C11_problem_roundtrip_exact : forall p : Problem, norm_Problem p = p -> dec_Problem (enc_Problem p) = Some p.
Proof. exact problem_roundtrip_exact. Qed.
Theorem C11_break_time_roundtrip_exact : forall t : VehicleOptionalBreakTime,
  t <> VehicleOptionalBreakTime_TimeOffset [] ->
  dec_VehicleOptionalBreakTime (enc_VehicleOptionalBreakTime t) = Some t.
Proof. exact break_time_roundtrip_exact. Qed.
(* ... and that exception is real (`[]` is read as a time window whichever variant wrote it); the serialised form is unaffected *)
Theorem C11_nonvacuous_break_time_empty_offset :
  dec_VehicleOptionalBreakTime (enc_VehicleOptionalBreakTime (VehicleOptionalBreakTime_TimeOffset []))
  = Some (VehicleOptionalBreakTime_TimeWindow []).
Proof. exact break_time_empty_offset_ambiguous. Qed.

(* ------------------------------------------------------------------------------------------------------------
   (c) CSV import: the imported problem carries exactly the tables' data.  `ord` is the (hash) order in which the
   distinct job ids come out; read_jobs uses first-occurrence order. *)
Theorem C11_csv_row_reappears : forall ord rows r,
  In r rows -> In (jr_id r) ord ->
  exists j, In j (read_jobs_ord ord rows) /\ Job_id j = jr_id r /\
            In (task_of_row r) (bucket_of (i32v (jr_demand r)) j).
Proof. exact csv_row_reappears. Qed.
Theorem C11_csv_task_from_row : forall ord rows j t d,
  In j (read_jobs_ord ord rows) -> In t (bucket_of d j) ->
  exists r, In r rows /\ jr_id r = Job_id j /\ t = task_of_row r /\ bucket_sel d (i32v (jr_demand r)) = true.
Proof. exact csv_task_from_row. Qed.
Theorem C11_csv_task_data : forall r,
  JobTask_places (task_of_row r) =
    [mk_JobPlace (Location_Coordinate (jr_lat r) (jr_lng r)) (fl_of_Z (usizev (jr_duration r)))
       (match jr_tw_start r, jr_tw_end r with Some s, Some e => Some [[s; e]] | _, _ => None end) None]
  /\ JobTask_order (task_of_row r) = None
  /\ (i32v (jr_demand r) = 0 -> JobTask_demand (task_of_row r) = None)
  /\ (i32v (jr_demand r) <> 0 -> i32v (jr_demand r) <> -2147483648 ->
      exists a, JobTask_demand (task_of_row r) = Some [a] /\ i32v a = Z.abs (i32v (jr_demand r))).
Proof. exact csv_task_data. Qed.
Theorem C11_csv_jobs_only_tasks : forall ord rows j,
  In j (read_jobs_ord ord rows) ->
  Job_replacements j = None /\ Job_skills j = None /\ Job_value j = None /\ Job_group j = None /\ Job_compatibility j = None.
Proof. exact csv_no_replacements. Qed.
Theorem C11_csv_job_ids_distinct : forall rows, NoDup (map Job_id (read_jobs rows)).
Proof. exact csv_job_ids_distinct. Qed.
Theorem C11_csv_job_ids_cover : forall rows id,
  In id (map Job_id (read_jobs rows)) <-> exists r, In r rows /\ jr_id r = id.
Proof. exact csv_job_ids_cover. Qed.
Theorem C11_csv_vehicle_rows : forall ord pord rows vrows,
  Fleet_vehicles (Problem_fleet (read_csv_ord ord pord rows vrows)) = map veh_of_row vrows.
Proof. exact csv_vehicle_rows. Qed.
Theorem C11_csv_vehicle_data : forall r,
  let v := veh_of_row r in
  let depot := Location_Coordinate (vr_lat r) (vr_lng r) in
  VehicleType_type_id v = vr_id r /\
  VehicleProfile_matrix (VehicleType_profile v) = vr_profile r /\
  VehicleType_capacity v = [vr_capacity r] /\
  VehicleType_shifts v = [mk_VehicleShift (mk_ShiftStart (vr_tw_start r) None depot)
                            (Some (mk_ShiftEnd None (vr_tw_end r) depot)) None None None] /\
  List.length (VehicleType_vehicle_ids v) = Z.to_nat (usizev (vr_amount r)) /\
  VehicleType_skills v = None /\ VehicleType_limits v = None.
Proof. exact csv_vehicle_data. Qed.
Theorem C11_csv_profiles : forall rows vrows name,
  In name (map MatrixProfile_name (Fleet_profiles (Problem_fleet (read_csv rows vrows)))) <->
  exists r, In r vrows /\ vr_profile r = name.
Proof. exact csv_profiles. Qed.
(* vehicle ids are "<ID>_<seq>" (since the repair 9df6aa4 of finding C11-F1): seq = 1..AMOUNT, and they are pairwise
   distinct whenever the table's type ids are — for all profiles (shared or not) and all amounts (E1301 cannot arise
   from a table that passes E1300) *)
Theorem C11_csv_vehicle_ids_shape : forall r x,
  In x (vehicle_ids_of r) <-> exists k, (1 <= k <= Z.to_nat (usizev (vr_amount r)))%nat /\ x = vehicle_id (vr_id r) k.
Proof. exact csv_vehicle_ids_shape. Qed.
Theorem C11_csv_vehicle_ids_distinct : forall ord pord rows vrows,
  NoDup (map vr_id vrows) -> NoDup (all_vehicle_ids (read_csv_ord ord pord rows vrows)).
Proof. exact csv_vehicle_ids_distinct. Qed.
Theorem C11_csv_shared_profile_nonvacuous :
  all_vehicle_ids (read_csv [] [wit_vrow "vehicle1"; wit_vrow "vehicle2"])
  = ["vehicle1_1"; "vehicle1_2"; "vehicle2_1"; "vehicle2_2"]%string.
Proof. exact csv_shared_profile_witness. Qed.
(* the import is total since repair 1cad789 of /repo (finding C11-F2): tables with a DEMAND of i32::MIN — the one value whose
   magnitude is not an i32, the type of a demand — are rejected (exactly those), and in every accepted table `demand.abs()`
   is exact for every row, so with C11_csv_task_data every task carries |DEMAND| exactly.
   That the imported problem passes the WHOLE validator is the campaign's oracle. *)
Theorem C11_csv_rejects_iff : forall rows,
  csv_rejects rows = true <-> exists r, In r rows /\ i32v (jr_demand r) = -2147483648.
Proof. exact csv_rejects_iff. Qed.
Theorem C11_csv_total : forall rows vrows,
  read_csv_problem rows vrows = CsvErr \/ read_csv_problem rows vrows = CsvOk (read_csv rows vrows).
Proof. exact csv_total. Qed.
Theorem C11_csv_accepted_abs_exact : forall rows vrows p r,
  read_csv_problem rows vrows = CsvOk p -> In r rows ->
  p = read_csv rows vrows /\ exists a, abs_i32 (jr_demand r) = Some a /\ i32v a = Z.abs (i32v (jr_demand r)).
Proof. exact csv_accepted_abs_exact. Qed.
(* the former finding C11-F2, restated about the code BEFORE the repair: `abs` overflowed exactly for DEMAND = i32::MIN
   (a panic with overflow checks); the repaired import rejects the witness table *)
Theorem C11_csv_panics_prefix_iff : forall rows,
  csv_panics_prefix rows = true <-> exists r, In r rows /\ i32v (jr_demand r) = -2147483648.
Proof. exact csv_panics_prefix_iff. Qed.
Theorem C11_csv_total_prefix_refuted : exists rows, csv_panics_prefix rows = true /\ read_csv_problem rows [] = CsvErr.
Proof. exact csv_total_prefix_refuted. Qed.
Theorem C11_csv_nonvacuous :
  csv_rejects [wit_jrow (Mk_i32 3 eq_refl)] = false /\
  map Job_id (read_jobs [wit_jrow (Mk_i32 3 eq_refl); wit_jrow (Mk_i32 (-3) eq_refl)]) = ["job1"%string] /\
  NoDup (all_vehicle_ids (read_csv [] [wit_vrow "vehicle1"])).
Proof. exact csv_nonvacuous_witness. Qed.

(* ------------------------------------------------------------------------------------------------------------
   (b) a written customer activity is matched back to its own job, place and time window when no other place of the
   task fits the same location / time and the service does not touch a later window of the place *)
Theorem C11_init_match_place_back : forall s i p k ws we start loc ts te,
  nth_error (s_places s) i = Some p ->
  loc_ok p loc = true ->
  nth_error (p_times p) k = Some (SWindow ws we) ->
  le_zo ws we = true ->
  intersects (ws, we) (ts, Some te) = true ->
  (forall j q, j <> i -> nth_error (s_places s) j = Some q ->
     accepts q loc start (ws, we) = false /\ accepts q loc start (ts, Some te) = false) ->
  (forall k' sp', (k < k')%nat -> nth_error (p_times p) k' = Some sp' ->
     intersects (to_window start sp') (ts, Some te) = false) ->
  match_place s true (written_actx s start loc (ws, we) ts te) = Some (i, loc, p_dur p, (ws, we)).
Proof. exact match_place_back. Qed.
Theorem C11_init_match_multi_back : forall ss k s i p kk ws we start loc ts te,
  (List.length ss <= List.length (dedup_s (flat_map (fun s => map snd (s_tags s)) ss)))%nat ->
  nth_error ss k = Some s ->
  nth_error (s_places s) i = Some p -> loc_ok p loc = true ->
  nth_error (p_times p) kk = Some (SWindow ws we) -> le_zo ws we = true ->
  intersects (ws, we) (ts, Some te) = true ->
  (forall j q, j <> i -> nth_error (s_places s) j = Some q ->
     accepts q loc start (ws, we) = false /\ accepts q loc start (ts, Some te) = false) ->
  (forall k' sp', (kk < k')%nat -> nth_error (p_times p) k' = Some sp' ->
     intersects (to_window start sp') (ts, Some te) = false) ->
  (forall j s', (j < k)%nat -> nth_error ss j = Some s' ->
     same_tags (get_job_tag s' loc (ts, Some te) start) (get_job_tag s loc (ws, we) start) = false) ->
  try_match_job (JMulti ss) (written_actx s start loc (ws, we) ts te) = Some (k, (i, loc, p_dur p, (ws, we))).
Proof. exact try_match_multi_back. Qed.
(* both side conditions are needed — the unconditional statement ("each at the place the solver used") is false: *)
Theorem C11_init_later_window_refuted :
  exists s start loc ws we ts te m,
    nth_error (s_places s) 0%nat = Some (mk_place (Some loc) 10 [SWindow ws (Some we); SWindow 15 (Some 25)]) /\
    ws <= ts <= we /\ ts <= te /\
    match_place s true (written_actx s start loc (ws, Some we) ts te) = Some m /\ snd m <> (ws, Some we).
Proof. exact later_window_refuted. Qed.
Theorem C11_init_same_location_place_refuted :
  exists s start loc ws we ts te p m,
    nth_error (s_places s) 1%nat = Some p /\ In (SWindow ws (Some we)) (p_times p) /\ loc_ok p loc = true /\
    ws <= ts <= we /\ te = ts + p_dur p /\
    NoDup (map snd (s_tags s)) /\ List.length (s_tags s) = List.length (s_places s) /\
    match_place s true (written_actx s start loc (ws, Some we) ts te) = Some m /\ fst (fst (fst m)) <> 1%nat.
Proof. exact same_location_place_refuted. Qed.
Theorem C11_init_nonvacuous :
  match_place w2_single true (written_actx w2_single 0 1 (0, Some 10) 2 9) = Some (0%nat, 1, 10, (0, Some 10)).
Proof. exact match_back_nonvacuous. Qed.

(* ------------------------------------------------------------------------------------------------------------
   (b, continued) the time-intersection rule of the activity matcher for BOTH kinds of time span, vehicle-specific
   activities (optional breaks with a time window or an offset interval, with or without location; reloads), the dispatch
   of try_match_point_job and read_init_solution's bookkeeping: the round trip of a whole written document.
   Boundaries: every statement below that speaks about an interval allows the service to start at its first and at its
   LAST moment (`<=`); seeded/C11-6 made the offset arm of TimeSpan::intersects strict at the last moment. *)
Open Scope string_scope.

(* TimeSpan::intersects is inclusive at both ends, for a time window and for an offset interval counted from `start` *)
Theorem C11_init_span_intersects_inclusive : forall start ts te,
  (forall ws we, span_intersects start (SWindow ws (Some we)) (ts, Some te) = true <-> ws <= te /\ ts <= we) /\
  (forall ws, span_intersects start (SWindow ws None) (ts, Some te) = true <-> ws <= te) /\
  (forall s e, span_intersects start (SOffset s e) (ts, Some te) = true <-> start + s <= te /\ ts <= start + e).
Proof. exact span_intersects_kinds. Qed.
(* an activity that starts anywhere in the interval - its first and its last moment included - intersects it *)
Theorem C11_init_span_boundary : forall start sp ts te,
  fst (to_window start sp) <= ts -> le_zo ts (snd (to_window start sp)) = true -> ts <= te ->
  span_intersects start sp (ts, Some te) = true.
Proof. exact span_intersects_inside. Qed.
(* a span that is a time window does not depend on the instant offsets are counted from; a single without offset spans is
   tagged and matched the same whatever that instant is *)
Theorem C11_init_window_spans_ignore_start : forall s b st1 st2 loc w tm jid tag,
  no_offsets s = true ->
  get_job_tag s loc w st1 = get_job_tag s loc w st2 /\
  match_place s b (mk_actx st1 loc tm jid tag) = match_place s b (mk_actx st2 loc tm jid tag).
Proof. exact window_spans_ignore_start. Qed.

(* match_place, any span kind (window: the window comes back; offset: the service interval comes back), customer job
   (is_job = true: the ids must agree) or vehicle-specific job (is_job = false) *)
Theorem C11_init_match_place_any_span : forall s is_job i p k sp start loc ts te jid,
  nth_error (s_places s) i = Some p -> loc_ok p loc = true ->
  nth_error (p_times p) k = Some sp ->
  le_zo (fst (to_window start sp)) (snd (to_window start sp)) = true ->
  span_intersects start sp (ts, Some te) = true ->
  (forall j q, j <> i -> nth_error (s_places s) j = Some q ->
     accepts q loc start (to_window start sp) = false /\ accepts q loc start (ts, Some te) = false) ->
  (forall k' sp', (k < k')%nat -> nth_error (p_times p) k' = Some sp' -> span_intersects start sp' (ts, Some te) = false) ->
  (is_job = true -> jid = s_id s) ->
  match_place s is_job (mk_actx start loc (ts, te) jid (get_job_tag s loc (to_window start sp) start)) =
    Some (i, loc, p_dur p, rebuilt_win sp te (p_dur p)).
Proof. exact match_place_back_gen. Qed.
(* an activity the solver placed (arrival not after the END of the window - equality allowed) is matched back to its place
   from what the writer puts into the document, when writer and reader count offsets from the solver's departure or the
   single has no offset span *)
Theorem C11_init_placed_activity_matched : forall s start ws rs a i p k sp is_job jid,
  placed s start a i p k sp -> starts_agree start ws rs s -> (is_job = true -> jid = s_id s) ->
  match_place s is_job (mk_actx rs (sa_loc a) (sa_ts a, sa_te a) jid (get_job_tag s (sa_loc a) (sa_win a) ws)) =
    Some (expected_place a i sp).
Proof. exact match_place_written. Qed.
(* break / reload / recharge: the n-th conditional job "<vehicle>_<type>_<shift>_<n>" is found when the n-1 tried before it
   do not match (the fuel of the candidate enumeration is always enough) *)
Theorem C11_init_vehicle_job_found : forall ix vid ty shift (ss : list single) s c m,
  (forall j s', nth_error ss j = Some s' -> lookup ix (vjob_id vid ty shift (S j)) = Some (JSingle s')) ->
  nth_error ss (Nat.pred (List.length ss)) = Some s ->
  (forall j s', (S j < List.length ss)%nat -> nth_error ss j = Some s' -> match_place s' false c = None) ->
  match_place s false c = Some m ->
  try_match_vehicle_job ix vid ty shift c = Some (vjob_id vid ty shift (List.length ss), m).
Proof. exact try_match_vehicle_job_at. Qed.
(* two ways a candidate tried before the activity's own job is told apart: another tag, or no place that fits *)
Theorem C11_init_candidate_told_apart : forall s b c,
  same_tags (get_job_tag s (c_loc c) (act_win c) (c_start c)) (c_tag c) = false \/
  (forall p, In p (s_places s) -> accepts p (c_loc c) (c_start c) (act_win c) = false) ->
  match_place s b c = None.
Proof. exact candidate_told_apart. Qed.
(* try_match_point_job on a well written activity (customer single job, sub-job of a multi job, break / reload / recharge):
   its own job, sub-job and place *)
Theorem C11_init_written_activity_matched : forall ix vid shift start ws rs a i sp,
  well_written ix vid shift start ws rs a i sp ->
  try_match_point_job ix vid shift (write_act ws rs a) =
    inr (MJob (sa_key a) (is_single_key ix (sa_key a)) (sa_sub a) (expected_place a i sp)).
Proof. exact try_match_written. Qed.
(* one tour: the activities come back in document order, each with the place the solver used, no double-assignment refusal *)
Theorem C11_init_tour_roundtrip : forall ix actors t added,
  stour_ok ix actors t ->
  NoDup (single_keys ix (st_items t)) ->
  (forall k, In k (single_keys ix (st_items t)) -> ~ In k added) ->
  read_acts ix (st_vid t) (st_shift t) (t_acts (doc_tour t)) added =
    inr (map item_ract (st_items t), (List.rev (tour_keys (st_items t)) ++ added)%list).
Proof. exact read_tour_written. Qed.
(* the whole document: read without error, the same activities on the same vehicle shifts in the same order at the places
   the solver used, and the same unassigned set U (us = the part of U the writer lists: the customer jobs; the conditional
   jobs that were not served come back through the completion step) *)
Theorem C11_init_roundtrip : forall ix actors all_jobs tours us (U : list string),
  Forall (stour_ok ix actors) tours ->
  NoDup (single_keys ix (all_items tours)) ->
  Forall (fun k => lookup ix k <> None) us ->
  (forall k, In k all_jobs <-> In k (tour_keys (all_items tours)) \/ In k U) ->
  (forall k, In k U -> ~ In k (tour_keys (all_items tours))) ->
  incl us U ->
  exists un, read_init ix actors all_jobs (map doc_tour tours) (map (fun k => (k, true)) us) = ROk (map expected_route tours) un
             /\ forall k, In k un <-> In k U.
Proof. exact init_roundtrip. Qed.
(* sufficient for stour_ok: no reload in the tour, no job merged into the departure stop, every activity well written with
   respect to the tour's departure *)
Theorem C11_init_plain_tour_ok : forall ix actors t,
  existsb (actor_eqb (st_vid t, st_type t, st_shift t)) actors = true ->
  terminals (st_pre t) -> terminals (st_post t) ->
  (forall a, In a (st_acts t) -> is_reload a = false) ->
  doc_route_start (st_start t) (st_start_loc t) (st_acts t) = st_start t ->
  Forall (fun it => well_written ix (st_vid t) (st_shift t) (st_start t) (st_start t) (st_start t)
                                 (item_act it) (snd (fst it)) (snd it)) (st_items t) ->
  stour_ok ix actors t.
Proof. exact stour_ok_plain. Qed.
(* both extra hypotheses of C11_init_plain_tour_ok are needed when offset spans are present - findings C11-F6 / C11-F7:
   (F6) a job served at the start location right after departure moves the `departure` of the departure stop, from which the
   reader counts the offsets;  (F7) after a reload the writer looks tags up with the departure of the activity before it *)
Theorem C11_init_merged_departure_stop_refuted :
  exists ix actors all_jobs t,
    Forall (fun it => well_written ix (st_vid t) (st_shift t) (st_start t) (st_start t) (st_start t)
                                   (item_act it) (snd (fst it)) (snd it)) (st_items t) /\
    NoDup (single_keys ix (st_items t)) /\ terminals (st_pre t) /\ terminals (st_post t) /\
    (forall a, In a (st_acts t) -> is_reload a = false) /\
    doc_route_start (st_start t) (st_start_loc t) (st_acts t) <> st_start t /\
    read_init ix actors all_jobs [doc_tour t] [] = RErr ECannotMatchVehicle.
Proof. exact merged_departure_stop_refuted. Qed.
Theorem C11_init_tag_after_reload_refuted :
  exists ix actors all_jobs t,
    Forall (fun it => well_written ix (st_vid t) (st_shift t) (st_start t) (st_start t) (st_start t)
                                   (item_act it) (snd (fst it)) (snd it)) (st_items t) /\
    NoDup (single_keys ix (st_items t)) /\ terminals (st_pre t) /\ terminals (st_post t) /\
    doc_route_start (st_start t) (st_start_loc t) (st_acts t) = st_start t /\
    (exists a, In a (st_acts t) /\ is_reload a = true) /\
    read_init ix actors all_jobs [doc_tour t] [] = RErr ECannotMatchVehicle.
Proof. exact tag_after_reload_refuted. Qed.
(* non-vacuity AT THE BOUNDARY: job1 is reached at the last second of its window [0,9], the optional break with the offset
   interval [5,10] starts at departure + 10, job3 is unassigned: the hypotheses of C11_init_roundtrip hold for this tour and
   the document is read back *)
Theorem C11_init_boundary_nonvacuous :
  stour_ok bd_ix bd_actors bd_tour /\
  sa_ts bd_a1 = 9 /\ sa_ts bd_a2 = 0 + 10 /\
  read_init bd_ix bd_actors ["job1"; "job2"; "job3"; "v1_break_0_1"] [doc_tour bd_tour] [("job3", true)] =
    ROk [expected_route bd_tour] ["job3"].
Proof. exact boundary_nonvacuous. Qed.
(* finding C11-F8: a REQUIRED break is written as a transit stop (during a drive) or as a `break` activity inside a stop;
   neither is ever read back: transit stops are refused, and a break activity is matched against the conditional jobs of
   OPTIONAL breaks only - whatever the rest of the document is *)
Theorem C11_init_transit_stop_refused : forall ix vid shift a rest added,
  w_commute a = false -> w_transit a = true -> read_acts ix vid shift (a :: rest) added = inl ETransit.
Proof. exact transit_stop_refused. Qed.
Theorem C11_init_break_without_optional_break_refused : forall ix vid shift a rest added,
  w_commute a = false -> w_transit a = false -> w_type a = "break" ->
  lookup ix (vjob_id vid "break" shift 1) = None ->
  read_acts ix vid shift (a :: rest) added = inl ECannotMatchVehicle.
Proof. exact break_without_optional_break_refused. Qed.
