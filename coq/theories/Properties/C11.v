(* C11 — Problem and solution documents survive round trips.
   Only the property theorems, each closed by `exact`. *)
From VRP Require Import Base.Tac Base.Json Model.SerdeSem Generated.ProblemCodec Generated.SolutionCodec Proofs.CodecP.

(* (a) serialise -> parse -> serialise is the identity on the serialised form, for every value of the document types
   (the Coq types are generated from the Rust types: bounded integers, finite floats) *)
Theorem C11_problem_roundtrip : forall p : Problem,
  exists q, dec_Problem (enc_Problem p) = Some q /\ enc_Problem q = enc_Problem p.
Proof. exact problem_roundtrip. Qed.
Theorem C11_problem_reserialise : forall p : Problem, run_problem (enc_Problem p) = Some (enc_Problem p).
Proof. exact problem_reserialise. Qed.
Theorem C11_matrix_roundtrip : forall m : Matrix, dec_Matrix (enc_Matrix m) = Some m.
Proof. exact matrix_roundtrip. Qed.
Theorem C11_matrix_reserialise : forall m : Matrix, run_matrix (enc_Matrix m) = Some (enc_Matrix m).
Proof. exact matrix_reserialise. Qed.
Theorem C11_solution_roundtrip : forall s : Solution, dec_Solution (enc_Solution s) = Some s.
Proof. exact solution_roundtrip. Qed.
Theorem C11_solution_reserialise : forall s : Solution, run_solution (enc_Solution s) = Some (enc_Solution s).
Proof. exact solution_reserialise. Qed.
(* the problem value itself comes back when no optional break carries an empty offset list ... *)
Theorem C11_problem_roundtrip_exact : forall p : Problem, norm_Problem p = p -> dec_Problem (enc_Problem p) = Some p.
Proof. exact problem_roundtrip_exact. Qed.
Theorem C11_break_time_roundtrip_exact : forall t : VehicleOptionalBreakTime,
  t <> VehicleOptionalBreakTime_TimeOffset [] ->
  dec_VehicleOptionalBreakTime (enc_VehicleOptionalBreakTime t) = Some t.
Proof. exact break_time_roundtrip_exact. Qed.
(* ... and that exception is real (`[]` is read as a time window whichever variant wrote it); the serialised form is unaffected *)
Theorem C11_nonvacuous_break_time_empty_offset :
  dec_VehicleOptionalBreakTime (enc_VehicleOptionalBreakTime (VehicleOptionalBreakTime_TimeOffset []))
  = Some (VehicleOptionalBreakTime_TimeWindow []).
Proof. exact break_time_empty_offset_ambiguous. Qed.
