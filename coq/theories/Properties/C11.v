(* C11 — Problem and solution documents survive round trips.
   Only the property theorems, each closed by `exact`. *)
From VRP Require Import Base.Tac Base.Json Model.SerdeSem Generated.ProblemCodec Generated.SolutionCodec Proofs.CodecP.
From VRP Require Import Model.Csv Proofs.CsvP Model.InitReader Proofs.InitReaderP.

(* (a) serialise -> parse -> serialise is the identity on the serialised form, for every value of the document types
   (the Coq types are generated from the Rust types: bounded integers, finite floats) *)
Theorem C11_problem_roundtrip : forall p : Problem,
  exists q, dec_Problem (enc_Problem p) = Some q /\ enc_Problem q = enc_Problem p.
Proof. exact problem_roundtrip. Qed.
Theorem C11_problem_reserialise : forall p : Problem, run_problem (enc_Problem p) = Some (enc_Problem p).
Proof. exact problem_reserialise. Qed.
Theorem C11_matrix_roundtrip : forall m : Matrix, dec_Matrix (enc_Matrix m) = Some m.
Proof. exact matrix_roundtrip. Qed.
Theorem C11_matrix_reserialise : forall m : Matrix, run_matrix (enc_Matrix m) = Some (enc_Matrix m).
Proof. exact matrix_reserialise. Qed.
Theorem C11_solution_roundtrip : forall s : Solution, dec_Solution (enc_Solution s) = Some s.
Proof. exact solution_roundtrip. Qed.
Theorem C11_solution_reserialise : forall s : Solution, run_solution (enc_Solution s) = Some (enc_Solution s).
Proof. exact solution_reserialise. Qed.
(* the problem value itself comes back when no optional break carries an empty offset list ... *)
Theorem C11_problem_roundtrip_exact : forall p : Problem, norm_Problem p = p -> dec_Problem (enc_Problem p) = Some p.
Proof. exact problem_roundtrip_exact. Qed.
Theorem C11_break_time_roundtrip_exact : forall t : VehicleOptionalBreakTime,
  t <> VehicleOptionalBreakTime_TimeOffset [] ->
  dec_VehicleOptionalBreakTime (enc_VehicleOptionalBreakTime t) = Some t.
Proof. exact break_time_roundtrip_exact. Qed.
(* ... and that exception is real (`[]` is read as a time window whichever variant wrote it); the serialised form is unaffected *)
Theorem C11_nonvacuous_break_time_empty_offset :
  dec_VehicleOptionalBreakTime (enc_VehicleOptionalBreakTime (VehicleOptionalBreakTime_TimeOffset []))
  = Some (VehicleOptionalBreakTime_TimeWindow []).
Proof. exact break_time_empty_offset_ambiguous. Qed.

(* ------------------------------------------------------------------------------------------------------------
   (c) CSV import: the imported problem carries exactly the tables' data.  `ord` is the (hash) order in which the
   distinct job ids come out; read_jobs uses first-occurrence order. *)
Theorem C11_csv_row_reappears : forall ord rows r,
  In r rows -> In (jr_id r) ord ->
  exists j, In j (read_jobs_ord ord rows) /\ Job_id j = jr_id r /\
            In (task_of_row r) (bucket_of (i32v (jr_demand r)) j).
Proof. exact csv_row_reappears. Qed.
Theorem C11_csv_task_from_row : forall ord rows j t d,
  In j (read_jobs_ord ord rows) -> In t (bucket_of d j) ->
  exists r, In r rows /\ jr_id r = Job_id j /\ t = task_of_row r /\ bucket_sel d (i32v (jr_demand r)) = true.
Proof. exact csv_task_from_row. Qed.
Theorem C11_csv_task_data : forall r,
  JobTask_places (task_of_row r) =
    [mk_JobPlace (Location_Coordinate (jr_lat r) (jr_lng r)) (fl_of_Z (usizev (jr_duration r)))
       (match jr_tw_start r, jr_tw_end r with Some s, Some e => Some [[s; e]] | _, _ => None end) None]
  /\ JobTask_order (task_of_row r) = None
  /\ (i32v (jr_demand r) = 0 -> JobTask_demand (task_of_row r) = None)
  /\ (i32v (jr_demand r) <> 0 -> i32v (jr_demand r) <> -2147483648 ->
      exists a, JobTask_demand (task_of_row r) = Some [a] /\ i32v a = Z.abs (i32v (jr_demand r))).
Proof. exact csv_task_data. Qed.
Theorem C11_csv_jobs_only_tasks : forall ord rows j,
  In j (read_jobs_ord ord rows) ->
  Job_replacements j = None /\ Job_skills j = None /\ Job_value j = None /\ Job_group j = None /\ Job_compatibility j = None.
Proof. exact csv_no_replacements. Qed.
Theorem C11_csv_job_ids_distinct : forall rows, NoDup (map Job_id (read_jobs rows)).
Proof. exact csv_job_ids_distinct. Qed.
Theorem C11_csv_job_ids_cover : forall rows id,
  In id (map Job_id (read_jobs rows)) <-> exists r, In r rows /\ jr_id r = id.
Proof. exact csv_job_ids_cover. Qed.
Theorem C11_csv_vehicle_rows : forall ord pord rows vrows,
  Fleet_vehicles (Problem_fleet (read_csv_ord ord pord rows vrows)) = map veh_of_row vrows.
Proof. exact csv_vehicle_rows. Qed.
Theorem C11_csv_vehicle_data : forall r,
  let v := veh_of_row r in
  let depot := Location_Coordinate (vr_lat r) (vr_lng r) in
  VehicleType_type_id v = vr_id r /\
  VehicleProfile_matrix (VehicleType_profile v) = vr_profile r /\
  VehicleType_capacity v = [vr_capacity r] /\
  VehicleType_shifts v = [mk_VehicleShift (mk_ShiftStart (vr_tw_start r) None depot)
                            (Some (mk_ShiftEnd None (vr_tw_end r) depot)) None None None] /\
  List.length (VehicleType_vehicle_ids v) = Z.to_nat (usizev (vr_amount r)) /\
  VehicleType_skills v = None /\ VehicleType_limits v = None.
Proof. exact csv_vehicle_data. Qed.
Theorem C11_csv_profiles : forall rows vrows name,
  In name (map MatrixProfile_name (Fleet_profiles (Problem_fleet (read_csv rows vrows)))) <->
  exists r, In r vrows /\ vr_profile r = name.
Proof. exact csv_profiles. Qed.
(* vehicle ids are "<ID>_<seq>" (since the repair 9df6aa4 of finding C11-F1): seq = 1..AMOUNT, and they are pairwise
   distinct whenever the table's type ids are — for all profiles (shared or not) and all amounts (E1301 cannot arise
   from a table that passes E1300) *)
Theorem C11_csv_vehicle_ids_shape : forall r x,
  In x (vehicle_ids_of r) <-> exists k, (1 <= k <= Z.to_nat (usizev (vr_amount r)))%nat /\ x = vehicle_id (vr_id r) k.
Proof. exact csv_vehicle_ids_shape. Qed.
Theorem C11_csv_vehicle_ids_distinct : forall ord pord rows vrows,
  NoDup (map vr_id vrows) -> NoDup (all_vehicle_ids (read_csv_ord ord pord rows vrows)).
Proof. exact csv_vehicle_ids_distinct. Qed.
Theorem C11_csv_shared_profile_nonvacuous :
  all_vehicle_ids (read_csv [] [wit_vrow "vehicle1"; wit_vrow "vehicle2"])
  = ["vehicle1_1"; "vehicle1_2"; "vehicle2_1"; "vehicle2_2"]%string.
Proof. exact csv_shared_profile_witness. Qed.
(* the import is total since repair 1cad789 of /repo (finding C11-F2): tables with a DEMAND of i32::MIN — the one value whose
   magnitude is not an i32, the type of a demand — are rejected (exactly those), and in every accepted table `demand.abs()`
   is exact for every row, so with C11_csv_task_data every task carries |DEMAND| exactly.
   That the imported problem passes the WHOLE validator is the campaign's oracle. *)
Theorem C11_csv_rejects_iff : forall rows,
  csv_rejects rows = true <-> exists r, In r rows /\ i32v (jr_demand r) = -2147483648.
Proof. exact csv_rejects_iff. Qed.
Theorem C11_csv_total : forall rows vrows,
  read_csv_problem rows vrows = CsvErr \/ read_csv_problem rows vrows = CsvOk (read_csv rows vrows).
Proof. exact csv_total. Qed.
Theorem C11_csv_accepted_abs_exact : forall rows vrows p r,
  read_csv_problem rows vrows = CsvOk p -> In r rows ->
  p = read_csv rows vrows /\ exists a, abs_i32 (jr_demand r) = Some a /\ i32v a = Z.abs (i32v (jr_demand r)).
Proof. exact csv_accepted_abs_exact. Qed.
(* the former finding C11-F2, restated about the code BEFORE the repair: `abs` overflowed exactly for DEMAND = i32::MIN
   (a panic with overflow checks); the repaired import rejects the witness table *)
Theorem C11_csv_panics_prefix_iff : forall rows,
  csv_panics_prefix rows = true <-> exists r, In r rows /\ i32v (jr_demand r) = -2147483648.
Proof. exact csv_panics_prefix_iff. Qed.
Theorem C11_csv_total_prefix_refuted : exists rows, csv_panics_prefix rows = true /\ read_csv_problem rows [] = CsvErr.
Proof. exact csv_total_prefix_refuted. Qed.
Theorem C11_csv_nonvacuous :
  csv_rejects [wit_jrow (Mk_i32 3 eq_refl)] = false /\
  map Job_id (read_jobs [wit_jrow (Mk_i32 3 eq_refl); wit_jrow (Mk_i32 (-3) eq_refl)]) = ["job1"%string] /\
  NoDup (all_vehicle_ids (read_csv [] [wit_vrow "vehicle1"])).
Proof. exact csv_nonvacuous_witness. Qed.

(* ------------------------------------------------------------------------------------------------------------
   (b) a written customer activity is matched back to its own job, place and time window when no other place of the
   task fits the same location / time and the service does not touch a later window of the place *)
Theorem C11_init_match_place_back : forall s i p k ws we start loc ts te,
  nth_error (s_places s) i = Some p ->
  loc_ok p loc = true ->
  nth_error (p_times p) k = Some (SWindow ws we) ->
  le_zo ws we = true ->
  intersects (ws, we) (ts, Some te) = true ->
  (forall j q, j <> i -> nth_error (s_places s) j = Some q ->
     accepts q loc start (ws, we) = false /\ accepts q loc start (ts, Some te) = false) ->
  (forall k' sp', (k < k')%nat -> nth_error (p_times p) k' = Some sp' ->
     intersects (to_window start sp') (ts, Some te) = false) ->
  match_place s true (written_actx s start loc (ws, we) ts te) = Some (i, loc, p_dur p, (ws, we)).
Proof. exact match_place_back. Qed.
Theorem C11_init_match_multi_back : forall ss k s i p kk ws we start loc ts te,
  (List.length ss <= List.length (dedup_s (flat_map (fun s => map snd (s_tags s)) ss)))%nat ->
  nth_error ss k = Some s ->
  nth_error (s_places s) i = Some p -> loc_ok p loc = true ->
  nth_error (p_times p) kk = Some (SWindow ws we) -> le_zo ws we = true ->
  intersects (ws, we) (ts, Some te) = true ->
  (forall j q, j <> i -> nth_error (s_places s) j = Some q ->
     accepts q loc start (ws, we) = false /\ accepts q loc start (ts, Some te) = false) ->
  (forall k' sp', (kk < k')%nat -> nth_error (p_times p) k' = Some sp' ->
     intersects (to_window start sp') (ts, Some te) = false) ->
  (forall j s', (j < k)%nat -> nth_error ss j = Some s' ->
     same_tags (get_job_tag s' loc (ts, Some te) start) (get_job_tag s loc (ws, we) start) = false) ->
  try_match_job (JMulti ss) (written_actx s start loc (ws, we) ts te) = Some (k, (i, loc, p_dur p, (ws, we))).
Proof. exact try_match_multi_back. Qed.
(* both side conditions are needed — the unconditional statement ("each at the place the solver used") is false: *)
Theorem C11_init_later_window_refuted :
  exists s start loc ws we ts te m,
    nth_error (s_places s) 0%nat = Some (mk_place (Some loc) 10 [SWindow ws (Some we); SWindow 15 (Some 25)]) /\
    ws <= ts <= we /\ ts <= te /\
    match_place s true (written_actx s start loc (ws, Some we) ts te) = Some m /\ snd m <> (ws, Some we).
Proof. exact later_window_refuted. Qed.
Theorem C11_init_same_location_place_refuted :
  exists s start loc ws we ts te p m,
    nth_error (s_places s) 1%nat = Some p /\ In (SWindow ws (Some we)) (p_times p) /\ loc_ok p loc = true /\
    ws <= ts <= we /\ te = ts + p_dur p /\
    NoDup (map snd (s_tags s)) /\ List.length (s_tags s) = List.length (s_places s) /\
    match_place s true (written_actx s start loc (ws, Some we) ts te) = Some m /\ fst (fst (fst m)) <> 1%nat.
Proof. exact same_location_place_refuted. Qed.
Theorem C11_init_nonvacuous :
  match_place w2_single true (written_actx w2_single 0 1 (0, Some 10) 2 9) = Some (0%nat, 1, 10, (0, Some 10)).
Proof. exact match_back_nonvacuous. Qed.
