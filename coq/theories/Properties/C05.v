(* C05 — Cached tour state always equals recomputation from the bare tours. *)
From VRP Require Import Base.Tac Model.Core Spec.Feasible Model.Eval Spec.Inv Model.Cache Proofs.CacheP Model.CacheF Proofs.CacheFP
  Model.CacheX Proofs.CacheXP.

(* The protocol of RouteContext over ANY table of features with distinct fields: the invariant
   "not stale -> every field maintained on route level equals its recomputation from the tour" is kept by every operation. *)
Theorem C05_cache_ok_route_mut : forall tour job value (fs : list (feature tour job value)) g r,
  CacheOK tour job value fs (route_mut tour value g r).
Proof. exact cache_ok_route_mut. Qed.

Theorem C05_cache_ok_state_mut : forall tour job value (fs : list (feature tour job value)) r,
  CacheOK tour job value fs (state_mut tour value r).
Proof. exact cache_ok_state_mut. Qed.

Theorem C05_cache_ok_accept_route_state : forall tour job value (fs : list (feature tour job value)),
  keys_distinct tour job value fs ->
  forall r, CacheOK tour job value fs r -> CacheOK tour job value fs (accept_route_state tour job value fs r).
Proof. exact cache_ok_accept_route_state. Qed.

Theorem C05_cache_ok_apply_insertion : forall tour job value (fs : list (feature tour job value)) ins j r,
  CacheOK tour job value fs (apply_insertion tour job value fs ins j r).
Proof. exact cache_ok_apply_insertion. Qed.

(* "after every single insertion": if every field was right before apply_insertion_success and a feature skips its refresh
   only for jobs that cannot change its field, every field is right afterwards (the flag is still set) *)
Theorem C05_insertion_fresh : forall tour job value (fs : list (feature tour job value)),
  keys_distinct tour job value fs ->
  forall ins j r,
  insertion_exact tour job value fs ins ->
  AllFresh tour job value fs r -> AllFresh tour job value fs (apply_insertion tour job value fs ins j r).
Proof. exact insertion_fresh. Qed.

(* the shipped table (transport, capacity, compatibility, groups) satisfies that side condition for insertion at any position *)
Theorem C05_shipped_insertion_exact : forall k, insertion_exact _ _ _ shipped (ins_at k).
Proof. exact shipped_insertion_exact. Qed.

(* handover: after accept_solution_state no tour is stale and every field whose feature refreshes in the handler the protocol
   calls last equals its recomputation - PROVIDED that side condition (`refreshes_on_handover`) *)
Theorem C05_handover_fresh : forall tour job value (fs : list (feature tour job value)),
  keys_distinct tour job value fs ->
  forall rs r',
  Forall (CacheOK tour job value fs) rs -> In r' (accept_solution_state tour job value fs rs) ->
  rc_stale r' = false /\
  forall f, In f fs -> refreshes_on_handover tour job value f = true -> field_ok tour job value f r'.
Proof. exact handover_fresh. Qed.

(* the shipped table (since /repo b397f8a CompatibilityState::accept_solution_state refreshes the stale tours) satisfies the
   side condition for EVERY feature: at handover no tour is stale and every cached field equals its recomputation *)
Theorem C05_handover_fresh_shipped : forall rs r',
  Forall (CacheOK _ _ _ shipped) rs -> In r' (accept_solution_state _ _ _ shipped rs) ->
  rc_stale r' = false /\ forall f, In f shipped -> field_ok _ _ _ f r'.
Proof.
  intros rs r' H1 H2. destruct (handover_fresh _ _ _ _ shipped_keys_distinct rs r' H1 H2) as [Hs Hf].
  split; [exact Hs|]. intros f Hin. apply Hf; [exact Hin|apply shipped_refreshes; exact Hin].
Qed.

(* the table BEFORE b397f8a (compatibility: empty accept_solution_state; finding C05-F1, regression mutant C05-6) violates that
   statement: remove the only job carrying a compatibility tag (route_mut), then accept_solution_state: the tour is flagged
   fresh, the tag is still there, recomputation from the tour gives none *)
Theorem C05_compat_stale_after_removal_refuted :
  exists r, In r (witness_after shipped_before_b397f8a) /\ rc_stale r = false /\
            rc_state r 2%nat = Some (CCompat 1) /\ recompute _ _ _ shipped_before_b397f8a (rc_tour r) 2%nat = None.
Proof. exact compat_stale_after_removal_before_fix. Qed.

(* the same history on the shipped table: the tag is gone, as recomputation says *)
Theorem C05_compat_fresh_after_removal_shipped :
  forall r, In r (witness_after shipped) -> rc_stale r = false /\ rc_state r 2%nat = None /\
            recompute _ _ _ shipped (rc_tour r) 2%nat = None.
Proof. exact compat_fresh_after_removal_shipped. Qed.

(* a field of the table equals the table's recomputation function at its key *)
Theorem C05_recompute_field : forall tour job value (fs : list (feature tour job value)),
  keys_distinct tour job value fs ->
  forall f t, In f fs -> caching tour job value f = true -> recompute tour job value fs t (f_key f) = f_compute f t.
Proof. exact recompute_field. Qed.

(* hence objective values are a function of the tours only: an objective that reads tours and cached fields gives equal
   values on two solutions with identical tours whose fields are fresh *)
Theorem C05_objective_function_of_tours : forall tour job value result (fs : list (feature tour job value))
  (fitness : list (tour * list (option value)) -> result) s1 s2,
  map rc_tour s1 = map rc_tour s2 ->
  Forall (fun r => forall f, In f fs -> field_ok tour job value f r) s1 ->
  Forall (fun r => forall f, In f fs -> field_ok tour job value f r) s2 ->
  fitness (map (view tour job value fs) s1) = fitness (map (view tour job value fs) s2).
Proof. exact objective_function_of_tours. Qed.

(* non-vacuity: a freshly computed context satisfies the invariant with every route-level field present *)
Theorem C05_nonvacuous :
  rc_stale (witness_fresh shipped) = false /\ rc_state (witness_fresh shipped) 2%nat = Some (CCompat 1) /\
  rc_state (witness_fresh shipped) 0%nat = Some (CSched [2; 1]) /\
  CacheOK _ _ _ shipped (witness_fresh shipped).
Proof.
  split; [reflexivity|]. split; [reflexivity|]. split; [reflexivity|].
  apply (cache_ok_accept_route_state _ _ _ shipped shipped_keys_distinct). intros H; discriminate.
Qed.

(* ======================= cross-tour cached quantities (Model/CacheX.v) =======================
   A per-SOLUTION aggregate that is cached INSIDE per-route state (the shared reload resource: "still available" per reload
   interval).  The protocol has the re-run loop of accept_solution_state_with_states; `edits` is whatever the solution-level
   clean-up does to the tours in an abandoned round (remove_trivial_markers). *)
(* hand-over, ANY tables with distinct keys: if every per-tour feature refreshes stale tours at hand-over, every cross-tour
   feature reads only what those features keep fresh (x_sound) and its second pass writes EVERY tour (XAll), then after
   accept_solution_state - however many rounds were abandoned - no tour is stale, every per-tour field equals its
   recomputation, and in a complete solution every cross-tour field equals its function of the bare tours of the result *)
Theorem C05_x_handover_fresh : forall tour job value (fs : list (feature tour job value)) (xfs : list (xfeature tour value))
  (edits : list (rctx tour value) -> option (list (rctx tour value))),
  keys_distinct tour job value fs -> NoDup (map xf_key xfs) ->
  (forall f, In f fs -> refreshes_on_handover tour job value f = true) ->
  (forall xf, In xf xfs -> forall f, In f fs -> f_key f <> xf_key xf) ->
  (forall xf, In xf xfs -> forall rs r, In r rs -> Forall (fun r0 => forall f, In f fs -> field_ok tour job value f r0) rs ->
                           xf_read xf rs r = xf_spec xf (map rc_tour rs) (rc_tour r)) ->
  (forall rs rs', edits rs = Some rs' -> forall r', In r' rs' -> In r' rs \/ rc_stale r' = true) ->
  forall partial fuel rs rs', Forall (CacheOK tour job value fs) rs ->
  accept_solution_loop tour job value fs xfs edits partial fuel rs = Some rs' ->
  Forall (fun r' => rc_stale r' = false /\
                    (forall f, In f fs -> field_ok tour job value f r') /\
                    (partial = false -> forall xf, In xf xfs -> xf_scope xf = XAll ->
                                        rc_state r' (xf_key xf) = xf_spec xf (map rc_tour rs') (rc_tour r'))) rs'.
Proof. exact handover_fresh_x. Qed.

(* after every single insertion into a complete solution (accept_insertion_with_states: prevent on the receiving tour, update
   over ALL tours): per-tour fields and cross-tour fields are right on every tour, for the tours as they are now *)
Theorem C05_x_insertion_fresh : forall tour job value (fs : list (feature tour job value)) (xfs : list (xfeature tour value)),
  keys_distinct tour job value fs -> NoDup (map xf_key xfs) ->
  (forall xf, In xf xfs -> forall f, In f fs -> f_key f <> xf_key xf) ->
  (forall xf, In xf xfs -> forall rs r, In r rs -> Forall (fun r0 => forall f, In f fs -> field_ok tour job value f r0) rs ->
                           xf_read xf rs r = xf_spec xf (map rc_tour rs) (rc_tour r)) ->
  forall ins j i rs, insertion_exact tour job value fs ins ->
  Forall (fun r0 => forall f, In f fs -> field_ok tour job value f r0) rs ->
  let rs' := accept_insertion_x tour job value fs xfs false ins j i rs in
  Forall (fun r' => (forall f, In f fs -> field_ok tour job value f r') /\
                    forall xf, In xf xfs -> xf_scope xf = XAll ->
                               rc_state r' (xf_key xf) = xf_spec xf (map rc_tour rs') (rc_tour r')) rs'.
Proof. exact insertion_fresh_x. Qed.

(* SharedResourceState::update_resource_consumption as written (totals in a map keyed by resource id, intervals read from the
   cached route state, get_activity_by_idx may panic) computes the function `avail_spec` of the bare tours whenever the cached
   reload intervals are fresh - for either scope of the second pass *)
Theorem C05_shared_read_sound : forall (scope : xscope) rs r, In r rs ->
  Forall (fun r0 => forall f, In f shared_table -> field_ok _ _ _ f r0) rs ->
  xf_read (shared_feature scope) rs r = xf_spec (shared_feature scope) (map rc_tour rs) (rc_tour r).
Proof. exact shared_read_sound. Qed.

(* the shared reload feature as shipped: at every hand-over of a complete solution no tour is stale, the cached reload
   intervals are those of the tour, the cached availability is `avail_spec` of the handed-over tours *)
Theorem C05_shared_handover_fresh : forall edits,
  (forall rs rs', edits rs = Some rs' -> forall r', In r' rs' -> In r' rs \/ rc_stale r' = true) ->
  forall fuel (rs rs' : list (rctx (list sact) xval)), Forall (CacheOK _ _ _ shared_table) rs ->
  accept_solution_loop _ _ _ shared_table shared_shipped edits false fuel rs = Some rs' ->
  Forall (fun r' => rc_stale r' = false /\
                    rc_state r' K_INTERVALS = Some (XIntervals (intervals_of (rc_tour r'))) /\
                    rc_state r' K_SHARED = avail_spec (map rc_tour rs') (rc_tour r')) rs'.
Proof. exact shared_handover_fresh. Qed.

Theorem C05_shared_insertion_fresh : forall ins j i (rs : list (rctx (list sact) xval)),
  insertion_exact _ _ _ shared_table ins ->
  Forall (fun r0 => forall f, In f shared_table -> field_ok _ _ _ f r0) rs ->
  let rs' := accept_insertion_x _ _ _ shared_table shared_shipped false ins j i rs in
  Forall (fun r' => rc_state r' K_INTERVALS = Some (XIntervals (intervals_of (rc_tour r'))) /\
                    rc_state r' K_SHARED = avail_spec (map rc_tour rs') (rc_tour r')) rs'.
Proof. exact shared_insertion_fresh. Qed.

(* what `avail_spec` is: for a reload interval (s, e) of a tour t of the solution ts that starts at an activity with the
   resource (cap, id), the entry at s is cap minus the resource demand of ALL reload intervals of ALL tours on resource id *)
Theorem C05_shared_avail_char : forall ts t s e a cap id,
  In t ts -> In (s, e) (intervals_of t) -> nth_error t s = Some a -> sa_res a = Some (cap, id) ->
  In (s, Some (cap - sum_for id (flat_map contribs_spec ts))) (avail_spec_entries ts t).
Proof. exact shared_avail_char. Qed.

(* the class of seeded change C05-5, "skip not modified tours" in the second pass: a step takes a job out of one
   tour; the other tour, untouched, is handed over fresh-flagged with availability 1 where the tours say 3 *)
Theorem C05_shared_stale_only_refuted :
  exists r1 r2, w_step shared_stale_only = Some [r1; r2] /\ rc_stale r2 = false /\ rc_tour r2 = wt2 /\
    rc_state r2 K_SHARED = Some (XAvail [(0%nat, None); (2%nat, Some 1)]) /\
    avail_spec [rc_tour r1; rc_tour r2] (rc_tour r2) = Some (XAvail [(0%nat, None); (2%nat, Some 3)]).
Proof. exact shared_stale_only_refuted. Qed.

(* non-vacuity: the same history with the code as shipped - both tours hold 3 = 5 - (1 + 1) *)
Theorem C05_shared_nonvacuous :
  exists r1 r2, w_step shared_shipped = Some [r1; r2] /\ rc_stale r2 = false /\ rc_tour r2 = wt2 /\
    rc_state r1 K_SHARED = Some (XAvail [(0%nat, None); (2%nat, Some 3)]) /\
    rc_state r2 K_SHARED = Some (XAvail [(0%nat, None); (2%nat, Some 3)]) /\
    rc_state r2 K_INTERVALS = Some (XIntervals [(0%nat, 1%nat); (2%nat, 4%nat)]).
Proof. exact shared_step_shipped. Qed.

(* GoalContext::accept_route_state over a goal that holds CombinedFeatureStates (FeatureCombinator: the shared reload feature,
   multi-objective layers).  Since /repo 05d96ed the parts' route-level handlers run inside the caller's single clear / unset
   bracket: the invariant "not stale -> field = recomputation" is kept for EVERY per-tour feature of the goal, inside a
   combined state or before / after it (so C05_x_handover_fresh applies to what operators leave that call it) *)
Theorem C05_cache_ok_goal_accept_route_state : forall tour job value (es : list (entry tour job value)) r,
  NoDup (entry_keys tour job value es) ->
  CacheOK tour job value (flat_fs tour job value es) r ->
  CacheOK tour job value (flat_fs tour job value es) (goal_accept_route_state tour job value false es r).
Proof. exact cache_ok_goal_accept_route_state. Qed.

(* a goal without a combined state: GoalContext::accept_route_state IS the accept_route_state of the protocol above *)
Theorem C05_goal_accept_route_state_flat : forall tour job value nested (gs : list (feature tour job value)) r,
  goal_accept_route_state tour job value nested (map EOne gs) r = accept_route_state tour job value gs r.
Proof. exact goal_accept_route_state_flat. Qed.

(* finding C05-F2, the protocol BEFORE 05d96ed (nested = true; regression mutant C05-10): CombinedFeatureState::accept_route_state
   was accept_route_state_with_states over its own states - a NESTED clear.  For a goal [f; Combined gs xs] the call returned a
   stale tour flagged fresh with the field of f - written a moment before - gone (ExchangeSequence::extract_jobs makes that
   call and hands the tour over when nothing is re-inserted: no transport state, cost objective 0) *)
Theorem C05_nested_clear_prefix_refuted : forall tour job value (f : feature tour job value) gs (xs : list (xfeature tour value)) r,
  rc_stale r = true -> ~ In (f_key f) (map f_key gs) -> ~ In (f_key f) (map xf_key xs) ->
  let r' := goal_accept_route_state tour job value true [EOne f; ECombined gs xs] r in
  rc_stale r' = false /\ rc_tour r' = rc_tour r /\ rc_state r' (f_key f) = None.
Proof. exact nested_clear_wipes. Qed.

(* the witness on the goal [transport-like total; Combined [reload intervals; shared resource]] *)
Theorem C05_nested_clear_witness_refuted :
  let r' := goal_accept_route_state _ _ _ true shared_goal (mkRctx wt1 (fun _ => None) true) in
  rc_stale r' = false /\ rc_state r' K_TOTAL = None /\ f_compute total_feature (rc_tour r') = Some (XTotal 6) /\
  ~ CacheOK _ _ _ [total_feature; intervals_feature] r'.
Proof. exact nested_clear_refuted. Qed.

(* the same call on the code as repaired: every field is there, the invariant holds *)
Theorem C05_nested_clear_repaired :
  let r' := goal_accept_route_state _ _ _ false shared_goal (mkRctx wt1 (fun _ => None) true) in
  rc_stale r' = false /\ rc_state r' K_TOTAL = Some (XTotal 6) /\
  rc_state r' K_INTERVALS = Some (XIntervals [(0%nat, 1%nat); (2%nat, 5%nat)]) /\
  CacheOK _ _ _ (flat_fs _ _ _ shared_goal) r'.
Proof. exact nested_clear_repaired. Qed.

(* ======================= cached fields that READ OTHER CACHED FIELDS; per-solution aggregates (Model/CacheF.v) =======================
   A handler computes its field from the tour AND the route state as it is when its turn comes (goal order).  `SC t k` is the field
   k as a function of the bare tour t; a handler is `Sound` when it computes that function whenever the keys it reads hold theirs.
   `good_from ok avail es` = the keys a pass makes right: the handler fires (`ok`) and every key it reads is good before it. *)
Theorem C05_f_route_state_fresh : forall tour job value svalue (SC : tour -> cache value) (es : list (CacheF.entry tour job value svalue)) r,
  NoDup (route_keys tour job value svalue es) -> (forall f, In (ERoute f) es -> Sound tour job value SC f) ->
  rc_stale r = true ->
  let r' := accept_route_state_d tour job value svalue es r in
  rc_stale r' = false /\ rc_tour r' = rc_tour r /\
  forall k, In k (good_from tour job value svalue (fun f => d_on_route f) [] es) -> key_ok tour value SC k r'.
Proof. exact route_state_fresh. Qed.

(* "after every single insertion": the keys of `avail` were right and the insertion does not concern them; every key the
   insertion pass makes good is right on the tour as it is now - whatever the other fields held before *)
Theorem C05_f_insertion_fresh : forall tour job value svalue (SC : tour -> cache value) (es : list (CacheF.entry tour job value svalue)) ins j r avail,
  NoDup (route_keys tour job value svalue es) -> (forall f, In (ERoute f) es -> Sound tour job value SC f) ->
  (forall f, In (ERoute f) es -> d_on_insertion f j = true -> ~ In (d_key f) avail) ->
  (forall k, In k avail -> key_ok tour value SC k r /\ SC (ins j (rc_tour r)) k = SC (rc_tour r) k) ->
  let r' := apply_insertion_d tour job value svalue es ins j r in
  rc_tour r' = ins j (rc_tour r) /\
  forall k, In k (good_from tour job value svalue (fun f => d_on_insertion f j) avail es) -> key_ok tour value SC k r'.
Proof. exact insertion_fresh_d. Qed.

(* hand-over: no tour is stale, the tours are unchanged, every good key is right on every tour, every good entry of the solution
   state is its handler applied to FRESH contexts of the tours (a function of the tours alone) *)
Theorem C05_f_handover_fresh : forall tour job value svalue (SC : tour -> cache value) (es : list (CacheF.entry tour job value svalue)) s,
  NoDup (route_keys tour job value svalue es) -> NoDup (agg_keys tour job value svalue es) ->
  (forall f, In (ERoute f) es -> Sound tour job value SC f) ->
  Forall (fun r => rc_stale r = false -> forall k, In k (good_from tour job value svalue (refreshes_d tour job value) [] es) -> key_ok tour value SC k r) (s_routes s) ->
  let s' := accept_solution_state_d tour job value svalue es s in
  map rc_tour (s_routes s') = map rc_tour (s_routes s) /\
  Forall (fun r' => rc_stale r' = false /\ forall k, In k (good_from tour job value svalue (refreshes_d tour job value) [] es) -> key_ok tour value SC k r') (s_routes s') /\
  forall a, In (EAgg a) es -> a_ext tour value svalue a -> In (a_key a) (good_aggs tour job value svalue (refreshes_d tour job value) [] es) ->
            s_aggs s' (a_key a) = a_read a (map (fresh tour value SC) (map rc_tour (s_routes s'))).
Proof. exact handover_fresh_d. Qed.

(* the invariant of the per-solution aggregates (SolutionState entries) on its own *)
Theorem C05_aggregates_fresh_after_accept_solution_state :
  forall tour job value svalue (SC : tour -> cache value) (es : list (CacheF.entry tour job value svalue)) s,
  NoDup (route_keys tour job value svalue es) -> NoDup (agg_keys tour job value svalue es) ->
  (forall f, In (ERoute f) es -> Sound tour job value SC f) ->
  Forall (fun r => rc_stale r = false -> forall k, In k (good_from tour job value svalue (refreshes_d tour job value) [] es) -> key_ok tour value SC k r) (s_routes s) ->
  let s' := accept_solution_state_d tour job value svalue es s in
  forall a, In (EAgg a) es -> a_ext tour value svalue a -> In (a_key a) (good_aggs tour job value svalue (refreshes_d tour job value) [] es) ->
            s_aggs s' (a_key a) = a_read a (map (fresh tour value SC) (map rc_tour (s_routes s'))).
Proof. exact aggregates_fresh_d. Qed.

(* InsertionContext::restore / finalize_insertion_ctx BEFORE /repo 38e261f (`restore_d false` = accept_solution_state, THEN
   remove_empty_routes): the aggregates are those of ALL tours the solution held while the handlers ran - the tours without jobs
   dropped afterwards included (finding C05-F5, repaired: C05_restore_counts_empty_tour_refuted is the witness about this version) *)
Theorem C05_restore_aggregates_of_the_tours_before_the_cleanup :
  forall tour job value svalue (SC : tour -> cache value) (is_empty : tour -> bool) (es : list (CacheF.entry tour job value svalue)) s,
  NoDup (route_keys tour job value svalue es) -> NoDup (agg_keys tour job value svalue es) ->
  (forall f, In (ERoute f) es -> Sound tour job value SC f) ->
  Forall (fun r => rc_stale r = false -> forall k, In k (good_from tour job value svalue (refreshes_d tour job value) [] es) -> key_ok tour value SC k r) (s_routes s) ->
  let s' := restore_d tour job value svalue false is_empty es s in
  map rc_tour (s_routes s') = filter (fun t => negb (is_empty t)) (map rc_tour (s_routes s)) /\
  forall a, In (EAgg a) es -> a_ext tour value svalue a -> In (a_key a) (good_aggs tour job value svalue (refreshes_d tour job value) [] es) ->
            s_aggs s' (a_key a) = a_read a (map (fresh tour value SC) (map rc_tour (s_routes s))).
Proof. exact restore_aggs_d. Qed.

(* restore / finalize_insertion_ctx AS THEY ARE since /repo 38e261f (`restore_d true`: remove_empty_routes, accept_solution_state,
   remove_empty_routes): the tours of the result are the tours with jobs, none is stale, every good key is right, and every good
   aggregate is the fold over exactly the tours that remain *)
Theorem C05_restore_aggregates_fresh :
  forall tour job value svalue (SC : tour -> cache value) (is_empty : tour -> bool) (es : list (CacheF.entry tour job value svalue)) s,
  NoDup (route_keys tour job value svalue es) -> NoDup (agg_keys tour job value svalue es) ->
  (forall f, In (ERoute f) es -> Sound tour job value SC f) ->
  Forall (fun r => rc_stale r = false -> forall k, In k (good_from tour job value svalue (refreshes_d tour job value) [] es) -> key_ok tour value SC k r) (s_routes s) ->
  let s' := restore_d tour job value svalue true is_empty es s in
  map rc_tour (s_routes s') = filter (fun t => negb (is_empty t)) (map rc_tour (s_routes s)) /\
  Forall (fun r' => rc_stale r' = false /\ forall k, In k (good_from tour job value svalue (refreshes_d tour job value) [] es) -> key_ok tour value SC k r') (s_routes s') /\
  forall a, In (EAgg a) es -> a_ext tour value svalue a -> In (a_key a) (good_aggs tour job value svalue (refreshes_d tour job value) [] es) ->
            s_aggs s' (a_key a) = a_read a (map (fresh tour value SC) (map rc_tour (s_routes s'))).
Proof. exact restore_fixed_d. Qed.

(* "objective values are a function of the tours only, two solutions with identical tours compare equal": whatever an objective
   reads after a hand-over - tours, good keys, good aggregates - coincides for two solutions with the same tours *)
Theorem C05_f_objective_function_of_tours :
  forall tour job value svalue (SC : tour -> cache value) (result : Type) (es : list (CacheF.entry tour job value svalue)) s1 s2
         (fitness : list (tour * list (option value)) * list (option svalue) -> result),
  NoDup (route_keys tour job value svalue es) -> NoDup (agg_keys tour job value svalue es) ->
  (forall f, In (ERoute f) es -> Sound tour job value SC f) -> (forall a, In (EAgg a) es -> a_ext tour value svalue a) ->
  Forall (fun r => rc_stale r = false -> forall k, In k (good_from tour job value svalue (refreshes_d tour job value) [] es) -> key_ok tour value SC k r) (s_routes s1) ->
  Forall (fun r => rc_stale r = false -> forall k, In k (good_from tour job value svalue (refreshes_d tour job value) [] es) -> key_ok tour value SC k r) (s_routes s2) ->
  map rc_tour (s_routes s1) = map rc_tour (s_routes s2) ->
  let G := good_from tour job value svalue (refreshes_d tour job value) [] es in
  let A := good_aggs tour job value svalue (refreshes_d tour job value) [] es in
  fitness (view_d tour value svalue G A (accept_solution_state_d tour job value svalue es s1)) =
  fitness (view_d tour value svalue G A (accept_solution_state_d tour job value svalue es s2)).
Proof. exact objective_function_d. Qed.

(* "discard the caches and recompute": running every read function on an empty cache in an order in which each comes after the
   keys it reads defines the function of the tour that every handler is sound for *)
Theorem C05_recompute_sound : forall tour job value (fs : list (dfeature tour job value)),
  NoDup (map d_key fs) -> ordered_b tour job value [] fs = true ->
  (forall f, In f fs -> reads_only tour job value f) ->
  forall f, In f fs -> Sound tour job value (run_all tour job value fs) f.
Proof. exact ideal_sound. Qed.

(* ---- the concrete goal table (transport, capacity / reload, compatibility, groups, tour limits, recharge, tour order, work balance,
   fast service) of ANY configuration whose two boolean side conditions evaluate to true (they are evaluated for every goal the
   correspondence meets): every handler of the table is sound for `spec_cache` ---- *)
Theorem C05_goal_sound : forall dur dist g, keys_ok dur dist g = true -> ideal_ok dur dist g = true ->
  forall f, In (ERoute f) (goal_table dur dist g) -> Sound ftour fact fval (spec_cache dur dist g) f.
Proof. exact goal_sound. Qed.

Theorem C05_goal_route_state_fresh : forall dur dist g, keys_ok dur dist g = true -> ideal_ok dur dist g = true ->
  forall r : rctx ftour fval, rc_stale r = true ->
  let r' := accept_route_state_d ftour fact fval sval (goal_table dur dist g) r in
  rc_stale r' = false /\ rc_tour r' = rc_tour r /\
  forall k, In k (good_route dur dist g) -> key_ok ftour fval (spec_cache dur dist g) k r'.
Proof. exact goal_route_state_fresh. Qed.

Theorem C05_goal_insertion_fresh : forall dur dist g, keys_ok dur dist g = true -> ideal_ok dur dist g = true ->
  forall ins j (r : rctx ftour fval) avail,
  (forall f, In (ERoute f) (goal_table dur dist g) -> d_on_insertion f j = true -> ~ In (d_key f) avail) ->
  (forall k, In k avail -> key_ok ftour fval (spec_cache dur dist g) k r /\
                           spec_cache dur dist g (ins j (rc_tour r)) k = spec_cache dur dist g (rc_tour r) k) ->
  let r' := apply_insertion_d ftour fact fval sval (goal_table dur dist g) ins j r in
  rc_tour r' = ins j (rc_tour r) /\
  forall k, In k (good_from ftour fact fval sval (fun f => d_on_insertion f j) avail (goal_table dur dist g)) ->
            key_ok ftour fval (spec_cache dur dist g) k r'.
Proof. exact goal_insertion_fresh. Qed.

Theorem C05_goal_handover_fresh : forall dur dist g, keys_ok dur dist g = true -> ideal_ok dur dist g = true ->
  forall s : sctx ftour fval sval,
  Forall (fun r => rc_stale r = false -> forall k, In k (good_handover dur dist g) -> key_ok ftour fval (spec_cache dur dist g) k r) (s_routes s) ->
  let s' := accept_solution_state_d ftour fact fval sval (goal_table dur dist g) s in
  map rc_tour (s_routes s') = map rc_tour (s_routes s) /\
  Forall (fun r' => rc_stale r' = false /\ forall k, In k (good_handover dur dist g) -> key_ok ftour fval (spec_cache dur dist g) k r') (s_routes s') /\
  forall k, In k (good_handover_aggs dur dist g) -> s_aggs s' k = spec_aggs dur dist g (map rc_tour (s_routes s')) k.
Proof. exact goal_handover_fresh. Qed.

Theorem C05_goal_restore_fresh : forall dur dist g, keys_ok dur dist g = true -> ideal_ok dur dist g = true ->
  forall (is_empty : ftour -> bool) (s : sctx ftour fval sval),
  Forall (fun r => rc_stale r = false -> forall k, In k (good_handover dur dist g) -> key_ok ftour fval (spec_cache dur dist g) k r) (s_routes s) ->
  let s' := restore_d ftour fact fval sval true is_empty (goal_table dur dist g) s in
  map rc_tour (s_routes s') = filter (fun t => negb (is_empty t)) (map rc_tour (s_routes s)) /\
  Forall (fun r' => rc_stale r' = false /\ forall k, In k (good_handover dur dist g) -> key_ok ftour fval (spec_cache dur dist g) k r') (s_routes s') /\
  forall k, In k (good_handover_aggs dur dist g) -> s_aggs s' k = spec_aggs dur dist g (map rc_tour (s_routes s')) k.
Proof. exact goal_restore_fresh. Qed.

Theorem C05_goal_objective_function_of_tours : forall dur dist (result : Type) g, keys_ok dur dist g = true -> ideal_ok dur dist g = true ->
  forall (s1 s2 : sctx ftour fval sval) (fitness : list (ftour * list (option fval)) * list (option sval) -> result),
  Forall (fun r => rc_stale r = false -> forall k, In k (good_handover dur dist g) -> key_ok ftour fval (spec_cache dur dist g) k r) (s_routes s1) ->
  Forall (fun r => rc_stale r = false -> forall k, In k (good_handover dur dist g) -> key_ok ftour fval (spec_cache dur dist g) k r) (s_routes s2) ->
  map rc_tour (s_routes s1) = map rc_tour (s_routes s2) ->
  fitness (view_d ftour fval sval (good_handover dur dist g) (good_handover_aggs dur dist g)
                  (accept_solution_state_d ftour fact fval sval (goal_table dur dist g) s1)) =
  fitness (view_d ftour fval sval (good_handover dur dist g) (good_handover_aggs dur dist g)
                  (accept_solution_state_d ftour fact fval sval (goal_table dur dist g) s2)).
Proof. exact goal_objective_function. Qed.

(* ---- instances for the goal `cfg_full`: every modelled feature in the goal, the objectives after the cost objective ---- *)
Theorem C05_handover_fresh_transport : forall dur dist s, HandoverInv dur dist cfg_full s ->
  Forall (fun r' => rc_stale r' = false /\ forall k, In k [K_SCHED; K_LATEST; K_WAIT; K_DIST; K_DUR] -> key_ok ftour fval (spec_cache dur dist cfg_full) k r')
         (s_routes (accept_solution_state_d ftour fact fval sval (goal_table dur dist cfg_full) s)).
Proof. exact handover_fresh_transport. Qed.

(* reloads.rs / route_intervals.rs / multi_trip.rs / capacity.rs: the reload intervals and the per-interval load profile *)
Theorem C05_handover_fresh_reload : forall dur dist s, HandoverInv dur dist cfg_full s ->
  Forall (fun r' => rc_stale r' = false /\ forall k, In k [K_RELOAD; K_CUR; K_PAST; K_FUT; K_MAXLOAD] -> key_ok ftour fval (spec_cache dur dist cfg_full) k r')
         (s_routes (accept_solution_state_d ftour fact fval sval (goal_table dur dist cfg_full) s)).
Proof. exact handover_fresh_reload. Qed.

(* recharge.rs: the recharge intervals and the distance counters *)
Theorem C05_handover_fresh_recharge : forall dur dist s, HandoverInv dur dist cfg_full s ->
  Forall (fun r' => rc_stale r' = false /\ forall k, In k [K_RIVS; K_RDIST] -> key_ok ftour fval (spec_cache dur dist cfg_full) k r')
         (s_routes (accept_solution_state_d ftour fact fval sval (goal_table dur dist cfg_full) s)).
Proof. exact handover_fresh_recharge. Qed.

(* fast_service.rs: the multi-job ranges, and the two other things its objective reads *)
Theorem C05_handover_fresh_fast_service : forall dur dist s, HandoverInv dur dist cfg_full s ->
  Forall (fun r' => rc_stale r' = false /\ forall k, In k [K_RANGES; K_SCHED; K_RELOAD] -> key_ok ftour fval (spec_cache dur dist cfg_full) k r')
         (s_routes (accept_solution_state_d ftour fact fval sval (goal_table dur dist cfg_full) s)).
Proof. exact handover_fresh_fast_service. Qed.

(* tour_order.rs: the cached violation count is the sum over the tours of the result *)
Theorem C05_handover_fresh_tour_order : forall dur dist s, HandoverInv dur dist cfg_full s ->
  let s' := accept_solution_state_d ftour fact fval sval (goal_table dur dist cfg_full) s in
  s_aggs s' A_ORDER = Some (SCount (fold_left (fun acc t => acc + tour_violations t) (map rc_tour (s_routes s')) 0)).
Proof. exact handover_fresh_tour_order. Qed.

(* work_balance.rs since /repo 5d6f1d2, objectives listed after the cost objective: the per-route values are right at hand-over
   (before the fix they were never refreshed there: C05_work_balance_route_value_stale_refuted) *)
Theorem C05_handover_fresh_work_balance_route_values : forall dur dist s, HandoverInv dur dist cfg_full s ->
  Forall (fun r' => rc_stale r' = false /\ forall k, In k [K_BAL OActivities; K_BAL ODistance; K_BAL ODuration] -> key_ok ftour fval (spec_cache dur dist cfg_full) k r')
         (s_routes (accept_solution_state_d ftour fact fval sval (goal_table dur dist cfg_full) s)).
Proof. exact handover_fresh_work_balance_route_values. Qed.
(* ... and the per-solution aggregate is the vector of the route estimates computed from the tours alone *)
Theorem C05_handover_fresh_work_balance_aggregates : forall dur dist s, HandoverInv dur dist cfg_full s ->
  let s' := accept_solution_state_d ftour fact fval sval (goal_table dur dist cfg_full) s in
  forall o, In o [OActivities; ODistance; ODuration] ->
  s_aggs s' (K_BAL o) = Some (SVec (map (fun t => route_estimate true o t (spec_cache dur dist cfg_full t)) (map rc_tour (s_routes s')))).
Proof. exact handover_fresh_work_balance_aggregates. Qed.

(* tour_limits.rs: the limit duration is a function of the actor; the route-level handler sets it (next theorem), the
   solution-level handlers leave it alone *)
Theorem C05_limit_duration_of_the_actor : forall dur dist t,
  spec_cache dur dist cfg_full t K_LIMIT = option_map VZ (fv_dur_limit (ft_veh t)).
Proof. exact limit_spec. Qed.
Theorem C05_handover_keeps_tour_limits : forall dur dist (s : sctx ftour fval sval),
  Forall (fun r => key_ok ftour fval (spec_cache dur dist cfg_full) K_LIMIT r) (s_routes s) ->
  Forall (fun r' => key_ok ftour fval (spec_cache dur dist cfg_full) K_LIMIT r')
         (s_routes (accept_solution_state_d ftour fact fval sval (goal_table dur dist cfg_full) s)).
Proof. exact handover_keeps_tour_limits. Qed.

(* GoalContext::accept_route_state on a stale tour: everything cached per tour is right afterwards - the limit duration and the
   work-balance route values included; only the group set (no route-level handler) is not *)
Theorem C05_route_state_fresh_full : forall dur dist (r : rctx ftour fval), rc_stale r = true ->
  let r' := accept_route_state_d ftour fact fval sval (goal_table dur dist cfg_full) r in
  rc_stale r' = false /\ rc_tour r' = rc_tour r /\
  forall k, In k [K_SCHED; K_LATEST; K_WAIT; K_DIST; K_DUR; K_RELOAD; K_CUR; K_PAST; K_FUT; K_MAXLOAD; K_COMPAT; K_LIMIT; K_RIVS; K_RDIST;
                  K_BAL OActivities; K_BAL ODistance; K_BAL ODuration; K_RANGES] -> key_ok ftour fval (spec_cache dur dist cfg_full) k r'.
Proof. exact route_state_fresh_full. Qed.

(* after every single insertion (any job, any change of the tour, NO assumption on the context before) *)
Theorem C05_insertion_fresh_reload : forall dur dist ins j (r : rctx ftour fval),
  forall k, In k [K_RELOAD; K_CUR; K_PAST; K_FUT; K_MAXLOAD] ->
  key_ok ftour fval (spec_cache dur dist cfg_untagged) k (apply_insertion_d ftour fact fval sval (goal_table dur dist cfg_untagged) ins j r).
Proof. exact insertion_fresh_reload. Qed.
Theorem C05_insertion_fresh_recharge : forall dur dist ins j (r : rctx ftour fval),
  forall k, In k [K_RIVS; K_RDIST] ->
  key_ok ftour fval (spec_cache dur dist cfg_untagged) k (apply_insertion_d ftour fact fval sval (goal_table dur dist cfg_untagged) ins j r).
Proof. exact insertion_fresh_recharge. Qed.
Theorem C05_insertion_fresh_fast_service : forall dur dist ins j (r : rctx ftour fval),
  forall k, In k [K_RANGES; K_SCHED; K_RELOAD] ->
  key_ok ftour fval (spec_cache dur dist cfg_untagged) k (apply_insertion_d ftour fact fval sval (goal_table dur dist cfg_untagged) ins j r).
Proof. exact insertion_fresh_fast_service. Qed.
Theorem C05_insertion_fresh_work_balance : forall dur dist ins j (r : rctx ftour fval),
  forall k, In k [K_BAL OActivities; K_BAL ODistance; K_BAL ODuration] ->
  key_ok ftour fval (spec_cache dur dist cfg_untagged) k (apply_insertion_d ftour fact fval sval (goal_table dur dist cfg_untagged) ins j r).
Proof. exact insertion_fresh_work_balance. Qed.
Theorem C05_insertion_fresh_all : forall dur dist ins j (r : rctx ftour fval),
  let r' := apply_insertion_d ftour fact fval sval (goal_table dur dist cfg_untagged) ins j r in
  rc_tour r' = ins j (rc_tour r) /\
  forall k, In k [K_SCHED; K_LATEST; K_WAIT; K_DIST; K_DUR; K_RELOAD; K_CUR; K_PAST; K_FUT; K_MAXLOAD; K_RIVS; K_RDIST;
                  K_BAL OActivities; K_BAL ODistance; K_BAL ODuration; K_RANGES] -> key_ok ftour fval (spec_cache dur dist cfg_untagged) k r'.
Proof. exact insertion_fresh_untagged. Qed.
Theorem C05_insertion_keeps_tour_limits : forall dur dist ins j (r : rctx ftour fval),
  key_ok ftour fval (spec_cache dur dist cfg_untagged) K_LIMIT r ->
  spec_cache dur dist cfg_untagged (ins j (rc_tour r)) K_LIMIT = spec_cache dur dist cfg_untagged (rc_tour r) K_LIMIT ->
  key_ok ftour fval (spec_cache dur dist cfg_untagged) K_LIMIT (apply_insertion_d ftour fact fval sval (goal_table dur dist cfg_untagged) ins j r).
Proof. exact insertion_keeps_tour_limits. Qed.

(* ---- the three findings about WorkBalanceState, on concrete tours (udur a b = |a - b|, udist = 2 |a - b|) ---- *)
(* C05-F3, the table BEFORE /repo 5d6f1d2 (regression mutant C05-17): the per-route value has no solution-level refresh: a job leaves
   the tour (ruin), accept_solution_state runs, the tour is flagged fresh, the cached value is the old one (2 activities; the tour has 1) *)
Theorem C05_work_balance_route_value_stale_refuted :
  let es := goal_table_before_5d6f1d2 udur udist cfg_activities in
  let s' := accept_solution_state_d ftour fact fval sval es
              (mkS [route_mut ftour fval (drop_job 2) (wfresh_before cfg_activities wtour2)] (fun _ => None)) in
  exists r', s_routes s' = [r'] /\ rc_stale r' = false /\ rc_tour r' = wtour1 /\
             rc_state r' (K_BAL OActivities) = Some (VZ 2) /\
             spec_cache udur udist cfg_activities wtour1 (K_BAL OActivities) = Some (VZ 1).
Proof. exact balance_route_value_stale. Qed.
(* the same history on the table as it is: the value is the one of the tour *)
Theorem C05_work_balance_route_value_repaired :
  let es := goal_table udur udist cfg_activities in
  let s' := accept_solution_state_d ftour fact fval sval es
              (mkS [route_mut ftour fval (drop_job 2) (wfresh cfg_activities wtour2)] (fun _ => None)) in
  exists r', s_routes s' = [r'] /\ rc_stale r' = false /\ rc_tour r' = wtour1 /\
             rc_state r' (K_BAL OActivities) = Some (VZ 1) /\
             spec_cache udur udist cfg_activities wtour1 (K_BAL OActivities) = Some (VZ 1).
Proof. exact balance_route_value_repaired. Qed.

(* C05-F4, per route: the distance balance listed BEFORE the cost objective reads the total distance before TransportState refreshes
   it: 0 on a rebuilt tour (distance 12), the distance before the insertion (12) after an insertion (20) *)
Theorem C05_work_balance_order_route_refuted :
  let es := goal_table udur udist cfg_distance_first in
  let r0 := wfresh cfg_distance_first wtour1 in
  let r1 := apply_insertion_d ftour fact fval sval es (ins_act 2) (wact 2 5 3) r0 in
  rc_state r0 (K_BAL ODistance) = Some (VZ 0) /\ spec_cache udur udist cfg_distance_first wtour1 (K_BAL ODistance) = Some (VZ 12) /\
  rc_tour r1 = wtour2 /\
  rc_state r1 (K_BAL ODistance) = Some (VZ 12) /\ spec_cache udur udist cfg_distance_first wtour2 (K_BAL ODistance) = Some (VZ 20).
Proof. exact balance_order_route. Qed.

(* C05-F4, per solution: the max-load balance always precedes the capacity feature: its aggregate (the objective value) is computed
   from the max-future loads of BEFORE the refresh of a changed tour (5/10; the tour gives 2/10) *)
Theorem C05_work_balance_order_aggregate_refuted :
  let es := goal_table udur udist cfg_max_load in
  let s' := accept_solution_state_d ftour fact fval sval es
              (mkS [route_mut ftour fval (drop_job 2) (wfresh cfg_max_load wtour2)] (fun _ => None)) in
  map rc_tour (s_routes s') = [wtour1] /\ Forall (fun r => rc_stale r = false) (s_routes s') /\
  s_aggs s' (K_BAL OMaxLoad) = Some (SVec [VQ 5 10]) /\
  spec_aggs udur udist cfg_max_load [wtour1] (K_BAL OMaxLoad) = Some (SVec [VQ 2 10]).
Proof. exact balance_order_aggregate. Qed.

(* C05-F5, restore BEFORE /repo 38e261f (regression mutant C05-18): the aggregate counts the tour that was emptied and is dropped
   afterwards ([2; 0]; the tours give [2]) *)
Theorem C05_restore_counts_empty_tour_refuted :
  let es := goal_table udur udist cfg_activities in
  let s' := restore_d ftour fact fval sval false no_jobs es
              (mkS [wfresh cfg_activities wtour2; route_mut ftour fval (drop_job 1) (wfresh cfg_activities wtour1)] (fun _ => None)) in
  map rc_tour (s_routes s') = [wtour2] /\
  s_aggs s' (K_BAL OActivities) = Some (SVec [VZ 2; VZ 0]) /\
  spec_aggs udur udist cfg_activities [wtour2] (K_BAL OActivities) = Some (SVec [VZ 2]).
Proof. exact restore_counts_empty_tour. Qed.
(* the same with restore as it is *)
Theorem C05_restore_repaired :
  let es := goal_table udur udist cfg_activities in
  let s' := restore_d ftour fact fval sval true no_jobs es
              (mkS [wfresh cfg_activities wtour2; route_mut ftour fval (drop_job 1) (wfresh cfg_activities wtour1)] (fun _ => None)) in
  map rc_tour (s_routes s') = [wtour2] /\
  s_aggs s' (K_BAL OActivities) = Some (SVec [VZ 2]) /\
  spec_aggs udur udist cfg_activities [wtour2] (K_BAL OActivities) = Some (SVec [VZ 2]).
Proof. exact restore_repaired. Qed.

(* C05-F6, restore BEFORE its repair (`again = false`, regression mutant C05-19): what 38e261f does not cover - a tour emptied BY A STATE HANDLER during accept_solution_state (an obsolete reload
   marker, the tour's last activity, is taken out by remove_trivial_markers; the round restarts) is counted by the aggregates of the
   restarted round and dropped afterwards ([2; 0]; the remaining tour gives [2]) *)
Theorem C05_restore_counts_tour_emptied_by_a_handler_refuted :
  let es := goal_table udur udist cfg_activities in
  let s' := restore_with_restart false drop_markers es
              (mkS [wfresh cfg_activities wtour2; wfresh cfg_activities wtourm] (fun _ => None)) in
  map rc_tour (s_routes s') = [wtour2] /\
  s_aggs s' (K_BAL OActivities) = Some (SVec [VZ 2; VZ 0]) /\
  spec_aggs udur udist cfg_activities [wtour2] (K_BAL OActivities) = Some (SVec [VZ 2]).
Proof. exact restore_counts_tour_emptied_by_handler. Qed.
(* the same with restore as it is since the repair of C05-F6 (`again = true`: the final clean-up removed a tour, so
   accept_solution_state runs once more): the aggregate is the fold over the tour that remains, nothing is stale *)
Theorem C05_restore_after_handler_emptied_tour_repaired :
  let es := goal_table udur udist cfg_activities in
  let s' := restore_with_restart true drop_markers es
              (mkS [wfresh cfg_activities wtour2; wfresh cfg_activities wtourm] (fun _ => None)) in
  map rc_tour (s_routes s') = [wtour2] /\ Forall (fun r => rc_stale r = false) (s_routes s') /\
  s_aggs s' (K_BAL OActivities) = Some (SVec [VZ 2]) /\
  spec_aggs udur udist cfg_activities [wtour2] (K_BAL OActivities) = Some (SVec [VZ 2]).
Proof. exact restore_after_handler_emptied_tour_repaired. Qed.

(* non-vacuity of the hand-over invariant and of the side conditions: cfg_full passes both checks; a stale context with an empty
   cache satisfies the invariant, so does the context accept_solution_state makes of it, which holds the values *)
Theorem C05_f_nonvacuous :
  (forall dur dist, keys_ok dur dist cfg_full = true /\ ideal_ok dur dist cfg_full = true) /\
  let s0 := mkS [mkRctx wtour2 (fun _ : nat => @None fval) true] (fun _ : nat => @None sval) in
  let s1 := accept_solution_state_d ftour fact fval sval (goal_table udur udist cfg_full) s0 in
  HandoverInv udur udist cfg_full s0 /\ HandoverInv udur udist cfg_full s1 /\
  (exists r, s_routes s1 = [r] /\ rc_stale r = false /\ rc_state r K_DIST = Some (VZ 20) /\
             rc_state r K_FUT = Some (VList [5; 3; 0; 0]) /\ rc_state r K_RIVS = Some (VIvs [(0%nat, 3%nat)]) /\
             rc_state r K_GROUPS = Some (VSet [])) /\
  s_aggs s1 (K_BAL ODistance) = Some (SVec [VZ 20]) /\ s_aggs s1 A_ORDER = Some (SCount 0).
Proof. split; [exact full_checks|exact full_nonvacuous]. Qed.
