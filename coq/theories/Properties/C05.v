(* C05 — Cached tour state always equals recomputation from the bare tours. *)
From VRP Require Import Base.Tac Model.Core Spec.Feasible Model.Eval Spec.Inv Model.Cache Proofs.CacheP Model.CacheX Proofs.CacheXP.

(* The protocol of RouteContext over ANY table of features with distinct fields: the invariant
   "not stale -> every field maintained on route level equals its recomputation from the tour" is kept by every operation. *)
Theorem C05_cache_ok_route_mut : forall tour job value (fs : list (feature tour job value)) g r,
  CacheOK tour job value fs (route_mut tour value g r).
Proof. exact cache_ok_route_mut. Qed.

Theorem C05_cache_ok_state_mut : forall tour job value (fs : list (feature tour job value)) r,
  CacheOK tour job value fs (state_mut tour value r).
Proof. exact cache_ok_state_mut. Qed.

Theorem C05_cache_ok_accept_route_state : forall tour job value (fs : list (feature tour job value)),
  keys_distinct tour job value fs ->
  forall r, CacheOK tour job value fs r -> CacheOK tour job value fs (accept_route_state tour job value fs r).
Proof. exact cache_ok_accept_route_state. Qed.

Theorem C05_cache_ok_apply_insertion : forall tour job value (fs : list (feature tour job value)) ins j r,
  CacheOK tour job value fs (apply_insertion tour job value fs ins j r).
Proof. exact cache_ok_apply_insertion. Qed.

(* "after every single insertion": if every field was right before apply_insertion_success and a feature skips its refresh
   only for jobs that cannot change its field, every field is right afterwards (the flag is still set) *)
Theorem C05_insertion_fresh : forall tour job value (fs : list (feature tour job value)),
  keys_distinct tour job value fs ->
  forall ins j r,
  insertion_exact tour job value fs ins ->
  AllFresh tour job value fs r -> AllFresh tour job value fs (apply_insertion tour job value fs ins j r).
Proof. exact insertion_fresh. Qed.

(* the shipped table (transport, capacity, compatibility, groups) satisfies that side condition for insertion at any position *)
Theorem C05_shipped_insertion_exact : forall k, insertion_exact _ _ _ shipped (ins_at k).
Proof. exact shipped_insertion_exact. Qed.

(* handover: after accept_solution_state no tour is stale and every field whose feature refreshes in the handler the protocol
   calls last equals its recomputation - PROVIDED that side condition (`refreshes_on_handover`) *)
Theorem C05_handover_fresh : forall tour job value (fs : list (feature tour job value)),
  keys_distinct tour job value fs ->
  forall rs r',
  Forall (CacheOK tour job value fs) rs -> In r' (accept_solution_state tour job value fs rs) ->
  rc_stale r' = false /\
  forall f, In f fs -> refreshes_on_handover tour job value f = true -> field_ok tour job value f r'.
Proof. exact handover_fresh. Qed.

(* the shipped table (since /repo b397f8a CompatibilityState::accept_solution_state refreshes the stale tours) satisfies the
   side condition for EVERY feature: at handover no tour is stale and every cached field equals its recomputation *)
Theorem C05_handover_fresh_shipped : forall rs r',
  Forall (CacheOK _ _ _ shipped) rs -> In r' (accept_solution_state _ _ _ shipped rs) ->
  rc_stale r' = false /\ forall f, In f shipped -> field_ok _ _ _ f r'.
Proof.
  intros rs r' H1 H2. destruct (handover_fresh _ _ _ _ shipped_keys_distinct rs r' H1 H2) as [Hs Hf].
  split; [exact Hs|]. intros f Hin. apply Hf; [exact Hin|apply shipped_refreshes; exact Hin].
Qed.

(* the table BEFORE b397f8a (compatibility: empty accept_solution_state; finding C05-F1, regression mutant C05-6) violates that
   statement: remove the only job carrying a compatibility tag (route_mut), then accept_solution_state: the tour is flagged
   fresh, the tag is still there, recomputation from the tour gives none *)
Theorem C05_compat_stale_after_removal_refuted :
  exists r, In r (witness_after shipped_before_b397f8a) /\ rc_stale r = false /\
            rc_state r 2%nat = Some (CCompat 1) /\ recompute _ _ _ shipped_before_b397f8a (rc_tour r) 2%nat = None.
Proof. exact compat_stale_after_removal_before_fix. Qed.

(* the same history on the shipped table: the tag is gone, as recomputation says *)
Theorem C05_compat_fresh_after_removal_shipped :
  forall r, In r (witness_after shipped) -> rc_stale r = false /\ rc_state r 2%nat = None /\
            recompute _ _ _ shipped (rc_tour r) 2%nat = None.
Proof. exact compat_fresh_after_removal_shipped. Qed.

(* a field of the table equals the table's recomputation function at its key *)
Theorem C05_recompute_field : forall tour job value (fs : list (feature tour job value)),
  keys_distinct tour job value fs ->
  forall f t, In f fs -> caching tour job value f = true -> recompute tour job value fs t (f_key f) = f_compute f t.
Proof. exact recompute_field. Qed.

(* hence objective values are a function of the tours only: an objective that reads tours and cached fields gives equal
   values on two solutions with identical tours whose fields are fresh *)
Theorem C05_objective_function_of_tours : forall tour job value result (fs : list (feature tour job value))
  (fitness : list (tour * list (option value)) -> result) s1 s2,
  map rc_tour s1 = map rc_tour s2 ->
  Forall (fun r => forall f, In f fs -> field_ok tour job value f r) s1 ->
  Forall (fun r => forall f, In f fs -> field_ok tour job value f r) s2 ->
  fitness (map (view tour job value fs) s1) = fitness (map (view tour job value fs) s2).
Proof. exact objective_function_of_tours. Qed.

(* non-vacuity: a freshly computed context satisfies the invariant with every route-level field present *)
Theorem C05_nonvacuous :
  rc_stale (witness_fresh shipped) = false /\ rc_state (witness_fresh shipped) 2%nat = Some (CCompat 1) /\
  rc_state (witness_fresh shipped) 0%nat = Some (CSched [2; 1]) /\
  CacheOK _ _ _ shipped (witness_fresh shipped).
Proof.
  split; [reflexivity|]. split; [reflexivity|]. split; [reflexivity|].
  apply (cache_ok_accept_route_state _ _ _ shipped shipped_keys_distinct). intros H; discriminate.
Qed.

(* ======================= cross-tour cached quantities (Model/CacheX.v) =======================
   A per-SOLUTION aggregate that is cached INSIDE per-route state (the shared reload resource: "still available" per reload
   interval).  The protocol has the re-run loop of accept_solution_state_with_states; `edits` is whatever the solution-level
   clean-up does to the tours in an abandoned round (remove_trivial_markers). *)
(* hand-over, ANY tables with distinct keys: if every per-tour feature refreshes stale tours at hand-over, every cross-tour
   feature reads only what those features keep fresh (x_sound) and its second pass writes EVERY tour (XAll), then after
   accept_solution_state - however many rounds were abandoned - no tour is stale, every per-tour field equals its
   recomputation, and in a complete solution every cross-tour field equals its function of the bare tours of the result *)
Theorem C05_x_handover_fresh : forall tour job value (fs : list (feature tour job value)) (xfs : list (xfeature tour value))
  (edits : list (rctx tour value) -> option (list (rctx tour value))),
  keys_distinct tour job value fs -> NoDup (map xf_key xfs) ->
  (forall f, In f fs -> refreshes_on_handover tour job value f = true) ->
  (forall xf, In xf xfs -> forall f, In f fs -> f_key f <> xf_key xf) ->
  (forall xf, In xf xfs -> forall rs r, In r rs -> Forall (fun r0 => forall f, In f fs -> field_ok tour job value f r0) rs ->
                           xf_read xf rs r = xf_spec xf (map rc_tour rs) (rc_tour r)) ->
  (forall rs rs', edits rs = Some rs' -> forall r', In r' rs' -> In r' rs \/ rc_stale r' = true) ->
  forall partial fuel rs rs', Forall (CacheOK tour job value fs) rs ->
  accept_solution_loop tour job value fs xfs edits partial fuel rs = Some rs' ->
  Forall (fun r' => rc_stale r' = false /\
                    (forall f, In f fs -> field_ok tour job value f r') /\
                    (partial = false -> forall xf, In xf xfs -> xf_scope xf = XAll ->
                                        rc_state r' (xf_key xf) = xf_spec xf (map rc_tour rs') (rc_tour r'))) rs'.
Proof. exact handover_fresh_x. Qed.

(* after every single insertion into a complete solution (accept_insertion_with_states: prevent on the receiving tour, update
   over ALL tours): per-tour fields and cross-tour fields are right on every tour, for the tours as they are now *)
Theorem C05_x_insertion_fresh : forall tour job value (fs : list (feature tour job value)) (xfs : list (xfeature tour value)),
  keys_distinct tour job value fs -> NoDup (map xf_key xfs) ->
  (forall xf, In xf xfs -> forall f, In f fs -> f_key f <> xf_key xf) ->
  (forall xf, In xf xfs -> forall rs r, In r rs -> Forall (fun r0 => forall f, In f fs -> field_ok tour job value f r0) rs ->
                           xf_read xf rs r = xf_spec xf (map rc_tour rs) (rc_tour r)) ->
  forall ins j i rs, insertion_exact tour job value fs ins ->
  Forall (fun r0 => forall f, In f fs -> field_ok tour job value f r0) rs ->
  let rs' := accept_insertion_x tour job value fs xfs false ins j i rs in
  Forall (fun r' => (forall f, In f fs -> field_ok tour job value f r') /\
                    forall xf, In xf xfs -> xf_scope xf = XAll ->
                               rc_state r' (xf_key xf) = xf_spec xf (map rc_tour rs') (rc_tour r')) rs'.
Proof. exact insertion_fresh_x. Qed.

(* SharedResourceState::update_resource_consumption as written (totals in a map keyed by resource id, intervals read from the
   cached route state, get_activity_by_idx may panic) computes the function `avail_spec` of the bare tours whenever the cached
   reload intervals are fresh - for either scope of the second pass *)
Theorem C05_shared_read_sound : forall (scope : xscope) rs r, In r rs ->
  Forall (fun r0 => forall f, In f shared_table -> field_ok _ _ _ f r0) rs ->
  xf_read (shared_feature scope) rs r = xf_spec (shared_feature scope) (map rc_tour rs) (rc_tour r).
Proof. exact shared_read_sound. Qed.

(* the shared reload feature as shipped: at every hand-over of a complete solution no tour is stale, the cached reload
   intervals are those of the tour, the cached availability is `avail_spec` of the handed-over tours *)
Theorem C05_shared_handover_fresh : forall edits,
  (forall rs rs', edits rs = Some rs' -> forall r', In r' rs' -> In r' rs \/ rc_stale r' = true) ->
  forall fuel (rs rs' : list (rctx (list sact) xval)), Forall (CacheOK _ _ _ shared_table) rs ->
  accept_solution_loop _ _ _ shared_table shared_shipped edits false fuel rs = Some rs' ->
  Forall (fun r' => rc_stale r' = false /\
                    rc_state r' K_INTERVALS = Some (XIntervals (intervals_of (rc_tour r'))) /\
                    rc_state r' K_SHARED = avail_spec (map rc_tour rs') (rc_tour r')) rs'.
Proof. exact shared_handover_fresh. Qed.

Theorem C05_shared_insertion_fresh : forall ins j i (rs : list (rctx (list sact) xval)),
  insertion_exact _ _ _ shared_table ins ->
  Forall (fun r0 => forall f, In f shared_table -> field_ok _ _ _ f r0) rs ->
  let rs' := accept_insertion_x _ _ _ shared_table shared_shipped false ins j i rs in
  Forall (fun r' => rc_state r' K_INTERVALS = Some (XIntervals (intervals_of (rc_tour r'))) /\
                    rc_state r' K_SHARED = avail_spec (map rc_tour rs') (rc_tour r')) rs'.
Proof. exact shared_insertion_fresh. Qed.

(* what `avail_spec` is: for a reload interval (s, e) of a tour t of the solution ts that starts at an activity with the
   resource (cap, id), the entry at s is cap minus the resource demand of ALL reload intervals of ALL tours on resource id *)
Theorem C05_shared_avail_char : forall ts t s e a cap id,
  In t ts -> In (s, e) (intervals_of t) -> nth_error t s = Some a -> sa_res a = Some (cap, id) ->
  In (s, Some (cap - sum_for id (flat_map contribs_spec ts))) (avail_spec_entries ts t).
Proof. exact shared_avail_char. Qed.

(* the class of seeded change C05-5, "skip not modified tours" in the second pass: a step takes a job out of one
   tour; the other tour, untouched, is handed over fresh-flagged with availability 1 where the tours say 3 *)
Theorem C05_shared_stale_only_refuted :
  exists r1 r2, w_step shared_stale_only = Some [r1; r2] /\ rc_stale r2 = false /\ rc_tour r2 = wt2 /\
    rc_state r2 K_SHARED = Some (XAvail [(0%nat, None); (2%nat, Some 1)]) /\
    avail_spec [rc_tour r1; rc_tour r2] (rc_tour r2) = Some (XAvail [(0%nat, None); (2%nat, Some 3)]).
Proof. exact shared_stale_only_refuted. Qed.

(* non-vacuity: the same history with the code as shipped - both tours hold 3 = 5 - (1 + 1) *)
Theorem C05_shared_nonvacuous :
  exists r1 r2, w_step shared_shipped = Some [r1; r2] /\ rc_stale r2 = false /\ rc_tour r2 = wt2 /\
    rc_state r1 K_SHARED = Some (XAvail [(0%nat, None); (2%nat, Some 3)]) /\
    rc_state r2 K_SHARED = Some (XAvail [(0%nat, None); (2%nat, Some 3)]) /\
    rc_state r2 K_INTERVALS = Some (XIntervals [(0%nat, 1%nat); (2%nat, 4%nat)]).
Proof. exact shared_step_shipped. Qed.

(* GoalContext::accept_route_state over a goal that holds CombinedFeatureStates (FeatureCombinator: the shared reload feature,
   multi-objective layers).  Since /repo 05d96ed the parts' route-level handlers run inside the caller's single clear / unset
   bracket: the invariant "not stale -> field = recomputation" is kept for EVERY per-tour feature of the goal, inside a
   combined state or before / after it (so C05_x_handover_fresh applies to what operators leave that call it) *)
Theorem C05_cache_ok_goal_accept_route_state : forall tour job value (es : list (entry tour job value)) r,
  NoDup (entry_keys tour job value es) ->
  CacheOK tour job value (flat_fs tour job value es) r ->
  CacheOK tour job value (flat_fs tour job value es) (goal_accept_route_state tour job value false es r).
Proof. exact cache_ok_goal_accept_route_state. Qed.

(* a goal without a combined state: GoalContext::accept_route_state IS the accept_route_state of the protocol above *)
Theorem C05_goal_accept_route_state_flat : forall tour job value nested (gs : list (feature tour job value)) r,
  goal_accept_route_state tour job value nested (map EOne gs) r = accept_route_state tour job value gs r.
Proof. exact goal_accept_route_state_flat. Qed.

(* finding C05-F2, the protocol BEFORE 05d96ed (nested = true; regression mutant C05-10): CombinedFeatureState::accept_route_state
   was accept_route_state_with_states over its own states - a NESTED clear.  For a goal [f; Combined gs xs] the call returned a
   stale tour flagged fresh with the field of f - written a moment before - gone (ExchangeSequence::extract_jobs makes that
   call and hands the tour over when nothing is re-inserted: no transport state, cost objective 0) *)
Theorem C05_nested_clear_prefix_refuted : forall tour job value (f : feature tour job value) gs (xs : list (xfeature tour value)) r,
  rc_stale r = true -> ~ In (f_key f) (map f_key gs) -> ~ In (f_key f) (map xf_key xs) ->
  let r' := goal_accept_route_state tour job value true [EOne f; ECombined gs xs] r in
  rc_stale r' = false /\ rc_tour r' = rc_tour r /\ rc_state r' (f_key f) = None.
Proof. exact nested_clear_wipes. Qed.

(* the witness on the goal [transport-like total; Combined [reload intervals; shared resource]] *)
Theorem C05_nested_clear_witness_refuted :
  let r' := goal_accept_route_state _ _ _ true shared_goal (mkRctx wt1 (fun _ => None) true) in
  rc_stale r' = false /\ rc_state r' K_TOTAL = None /\ f_compute total_feature (rc_tour r') = Some (XTotal 6) /\
  ~ CacheOK _ _ _ [total_feature; intervals_feature] r'.
Proof. exact nested_clear_refuted. Qed.

(* the same call on the code as repaired: every field is there, the invariant holds *)
Theorem C05_nested_clear_repaired :
  let r' := goal_accept_route_state _ _ _ false shared_goal (mkRctx wt1 (fun _ => None) true) in
  rc_stale r' = false /\ rc_state r' K_TOTAL = Some (XTotal 6) /\
  rc_state r' K_INTERVALS = Some (XIntervals [(0%nat, 1%nat); (2%nat, 5%nat)]) /\
  CacheOK _ _ _ (flat_fs _ _ _ shared_goal) r'.
Proof. exact nested_clear_repaired. Qed.
