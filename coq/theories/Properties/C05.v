(* C05 — Cached tour state always equals recomputation from the bare tours. *)
From VRP Require Import Base.Tac Model.Core Spec.Feasible Model.Eval Spec.Inv Model.Cache Proofs.CacheP.

(* The protocol of RouteContext over ANY table of features with distinct fields: the invariant
   "not stale -> every field maintained on route level equals its recomputation from the tour" is kept by every operation. *)
Theorem C05_cache_ok_route_mut : forall tour job value (fs : list (feature tour job value)) g r,
  CacheOK tour job value fs (route_mut tour value g r).
Proof. exact cache_ok_route_mut. Qed.

Theorem C05_cache_ok_state_mut : forall tour job value (fs : list (feature tour job value)) r,
  CacheOK tour job value fs (state_mut tour value r).
Proof. exact cache_ok_state_mut. Qed.

Theorem C05_cache_ok_accept_route_state : forall tour job value (fs : list (feature tour job value)),
  keys_distinct tour job value fs ->
  forall r, CacheOK tour job value fs r -> CacheOK tour job value fs (accept_route_state tour job value fs r).
Proof. exact cache_ok_accept_route_state. Qed.

Theorem C05_cache_ok_apply_insertion : forall tour job value (fs : list (feature tour job value)) ins j r,
  CacheOK tour job value fs (apply_insertion tour job value fs ins j r).
Proof. exact cache_ok_apply_insertion. Qed.

(* "after every single insertion": if every field was right before apply_insertion_success and a feature skips its refresh
   only for jobs that cannot change its field, every field is right afterwards (the flag is still set) *)
Theorem C05_insertion_fresh : forall tour job value (fs : list (feature tour job value)),
  keys_distinct tour job value fs ->
  forall ins j r,
  insertion_exact tour job value fs ins ->
  AllFresh tour job value fs r -> AllFresh tour job value fs (apply_insertion tour job value fs ins j r).
Proof. exact insertion_fresh. Qed.

(* the shipped table (transport, capacity, compatibility, groups) satisfies that side condition for insertion at any position *)
Theorem C05_shipped_insertion_exact : forall k, insertion_exact _ _ _ shipped (ins_at k).
Proof. exact shipped_insertion_exact. Qed.

(* handover: after accept_solution_state no tour is stale and every field whose feature refreshes in the handler the protocol
   calls last equals its recomputation - PROVIDED that side condition (`refreshes_on_handover`) *)
Theorem C05_handover_fresh : forall tour job value (fs : list (feature tour job value)),
  keys_distinct tour job value fs ->
  forall rs r',
  Forall (CacheOK tour job value fs) rs -> In r' (accept_solution_state tour job value fs rs) ->
  rc_stale r' = false /\
  forall f, In f fs -> refreshes_on_handover tour job value f = true -> field_ok tour job value f r'.
Proof. exact handover_fresh. Qed.

(* the shipped table (since /repo b397f8a CompatibilityState::accept_solution_state refreshes the stale tours) satisfies the
   side condition for EVERY feature: at handover no tour is stale and every cached field equals its recomputation *)
Theorem C05_handover_fresh_shipped : forall rs r',
  Forall (CacheOK _ _ _ shipped) rs -> In r' (accept_solution_state _ _ _ shipped rs) ->
  rc_stale r' = false /\ forall f, In f shipped -> field_ok _ _ _ f r'.
Proof.
  intros rs r' H1 H2. destruct (handover_fresh _ _ _ _ shipped_keys_distinct rs r' H1 H2) as [Hs Hf].
  split; [exact Hs|]. intros f Hin. apply Hf; [exact Hin|apply shipped_refreshes; exact Hin].
Qed.

(* the table BEFORE b397f8a (compatibility: empty accept_solution_state; finding C05-F1, regression mutant C05-6) violates that
   statement: remove the only job carrying a compatibility tag (route_mut), then accept_solution_state: the tour is flagged
   fresh, the tag is still there, recomputation from the tour gives none *)
Theorem C05_compat_stale_after_removal_refuted :
  exists r, In r (witness_after shipped_before_b397f8a) /\ rc_stale r = false /\
            rc_state r 2%nat = Some (CCompat 1) /\ recompute _ _ _ shipped_before_b397f8a (rc_tour r) 2%nat = None.
Proof. exact compat_stale_after_removal_before_fix. Qed.

(* the same history on the shipped table: the tag is gone, as recomputation says *)
Theorem C05_compat_fresh_after_removal_shipped :
  forall r, In r (witness_after shipped) -> rc_stale r = false /\ rc_state r 2%nat = None /\
            recompute _ _ _ shipped (rc_tour r) 2%nat = None.
Proof. exact compat_fresh_after_removal_shipped. Qed.

(* a field of the table equals the table's recomputation function at its key *)
Theorem C05_recompute_field : forall tour job value (fs : list (feature tour job value)),
  keys_distinct tour job value fs ->
  forall f t, In f fs -> caching tour job value f = true -> recompute tour job value fs t (f_key f) = f_compute f t.
Proof. exact recompute_field. Qed.

(* hence objective values are a function of the tours only: an objective that reads tours and cached fields gives equal
   values on two solutions with identical tours whose fields are fresh *)
Theorem C05_objective_function_of_tours : forall tour job value result (fs : list (feature tour job value))
  (fitness : list (tour * list (option value)) -> result) s1 s2,
  map rc_tour s1 = map rc_tour s2 ->
  Forall (fun r => forall f, In f fs -> field_ok tour job value f r) s1 ->
  Forall (fun r => forall f, In f fs -> field_ok tour job value f r) s2 ->
  fitness (map (view tour job value fs) s1) = fitness (map (view tour job value fs) s2).
Proof. exact objective_function_of_tours. Qed.

(* non-vacuity: a freshly computed context satisfies the invariant with every route-level field present *)
Theorem C05_nonvacuous :
  rc_stale (witness_fresh shipped) = false /\ rc_state (witness_fresh shipped) 2%nat = Some (CCompat 1) /\
  rc_state (witness_fresh shipped) 0%nat = Some (CSched [2; 1]) /\
  CacheOK _ _ _ shipped (witness_fresh shipped).
Proof.
  split; [reflexivity|]. split; [reflexivity|]. split; [reflexivity|].
  apply (cache_ok_accept_route_state _ _ _ shipped shipped_keys_distinct). intros H; discriminate.
Qed.
