(* C03 — Reported schedule, load, distance and cost are reproducible.
   Statement (properties.jsonl): arrival and departure times, per-stop load and cumulative distance, and the per-tour and
   overall statistics (distance, duration, driving/serving/waiting/break split, cost) of a returned solution equal the values
   recomputed from the problem's routing data, vehicle costs and the reported visiting order alone, up to the one-unit
   rounding of the output format; the overall statistic is the sum of the tours, and the place tag reported with an activity
   is the tag of the place (location, duration, time window) that was actually used.

   Shape of the result (integer data: every `as i64` of the writer is exact, so equality is exact, no rounding unit):
   - the independent recomputation is Spec.Valid.replay_viol (run inside Coq on every document the real solver returns);
   - Model/Writer.v is create_tour as the fold it is (tours without breaks / reloads / commute); the theorems below relate
     what that fold writes to the replay: every statistic component, the split, the cost formula, the agreement with
     InsertionContext::get_total_cost, the activity intervals, the total;
   - the grouping of activities into stops is covered by the invariant "the most recent stop tracks the fold state"
     (C03_last_stop_tracks) and validated exactly (model output = real document, every case); it is not proved equal to the
     per-stop replay in general (partial, see notes/C03.md);
   - the tag clause is FALSE of the faithful model of get_job_tag (finding C03-F1): strongest true statement
     C03_tag_is_used_place_partial, witness C03_tag_is_used_place_refuted. *)
From VRP Require Import Base.Tac Model.Core Spec.Feasible Spec.Valid Model.Writer Proofs.ValidP Proofs.WriterP
                        Spec.ValidTD Proofs.ValidTDP.

(* the schedule the Core model of update_schedules leaves in a route is a consistent one *)
Theorem C03_update_schedules_consistent :
  forall (dur : Z -> Z -> Z) (kinds : list (Z * option Z)) (loc dep : Z) (acts : list act),
    Sched dur loc dep (map (fun x => mkWAct (fst x) (fst (snd x)) (snd (snd x))) (combine (resched_from dur loc dep acts) kinds)).
Proof. exact resched_Sched. Qed.

(* the independent replay of the checker is that schedule model *)
Theorem C03_replay_is_core_schedule :
  forall (dur : Z -> Z -> Z) (t : list act), replay dur t = map (fun a => (a_arr a, a_dep a)) (reschedule dur t).
Proof. exact replay_reschedule. Qed.

(* under a consistent schedule the (arrival, departure) pairs the writer copies into the document are the replay *)
Theorem C03_schedule_is_replay :
  forall (dur : Z -> Z -> Z) (r : list wact) (loc dep : Z), Sched dur loc dep r ->
    replay_from dur loc dep (acts_of_w r) = map (fun w => (a_arr (w_act w), a_dep (w_act w))) r.
Proof. exact Sched_replay. Qed.

(* the written activities: the departure, then per visited activity in tour order its job, type, location, the interval
   [service start, service end] with service start = max(arrival, window start), and the tag *)
Theorem C03_activities_written :
  forall (dur dist : Z -> Z -> Z) (v : vehicle) (s : wact) (r : list wact) (st : wstate),
    wfold dur dist v (s :: r) = Some st -> exists d, wflat st = d :: map act_record r /\ sa_kind d = 10.
Proof. exact activities_written. Qed.

(* the most recent stop always carries the location, departure and load of the fold state (older stops are final) *)
Theorem C03_last_stop_tracks :
  forall (dur dist : Z -> Z -> Z) (v : vehicle) (r : list wact) (st : wstate),
    head_tracks st -> head_tracks (fold_left (wstep dur dist v) r st).
Proof. exact last_stop_tracks. Qed.

(* the stops of the document are the forward grouping `wgroup` of the visited activities: consecutive activities at one
   location share a stop; its arrival is the arrival of its first activity, its departure and load are those after its
   last activity, its distance is the cumulative distance when it was reached (then redundant fields are removed) *)
Theorem C03_stops_are_grouping :
  forall (dur dist : Z -> Z -> Z) (v : vehicle) (s : wact) (r : list wact),
    fst (write_tour dur dist v (s :: r)) =
    map cleanup (wgroup dist (a_loc (w_act s)) (start_delivery (s :: r)) 0
                        (unrev (hd (mkSStop 0 0 0 0 0 []) (ws_stops (start_state (s :: r) (w_act s))))) r).
Proof. exact stops_are_grouping. Qed.

(* load on board after the fold *)
Theorem C03_load_after_fold :
  forall (dur dist : Z -> Z -> Z) (v : vehicle) (r : list wact) (st : wstate),
    ws_load (fold_left (wstep dur dist v) r st) = load_after (ws_load st) r.
Proof. exact load_fold. Qed.

(* statistic components equal the replay *)
Theorem C03_stat_distance_replay :
  forall (dur dist : Z -> Z -> Z) (v : vehicle) (s : wact) (r : list wact),
    st_dist (tour_stat dur dist v (s :: r)) = tour_legs dist (acts_of_w (s :: r)).
Proof. exact stat_distance_replay. Qed.

Theorem C03_stat_driving_replay :
  forall (dur dist : Z -> Z -> Z) (v : vehicle) (s : wact) (r : list wact),
    st_drive (tour_stat dur dist v (s :: r)) = tour_legs dur (acts_of_w (s :: r)).
Proof. exact stat_driving_replay. Qed.

Theorem C03_stat_serving_replay :
  forall (dur dist : Z -> Z -> Z) (v : vehicle) (s : wact) (r : list wact),
    st_serve (tour_stat dur dist v (s :: r)) = replay_serving (acts_of_w (s :: r)).
Proof. exact stat_serving_replay. Qed.

(* duration = driving + serving + waiting + break *)
Theorem C03_statistic_split :
  forall (dur dist : Z -> Z -> Z) (v : vehicle) (s : wact) (r : list wact),
    Sched dur (a_loc (w_act s)) (a_dep (w_act s)) r ->
    let st := tour_stat dur dist v (s :: r) in st_dur st = st_drive st + st_serve st + st_wait st + st_break st.
Proof. exact statistic_split. Qed.

(* cost = fixed + distance * cd + duration * ct  (the pragmatic format has one time price) *)
Theorem C03_cost_formula :
  forall (dur dist : Z -> Z -> Z) (v : vehicle) (s : wact) (r : list wact) (ct : Z),
    v_ptime v = ct -> v_pwait v = ct -> v_psvc v = ct ->
    Sched dur (a_loc (w_act s)) (a_dep (w_act s)) r ->
    let st := tour_stat dur dist v (s :: r) in st_cost st = v_fixed v + st_dist st * v_pdist v + st_dur st * ct.
Proof. exact cost_formula. Qed.

(* and that is what InsertionContext::get_total_cost charges for the route *)
Theorem C03_cost_is_core_cost :
  forall (dur dist : Z -> Z -> Z) (v : vehicle) (s : wact) (r : list wact) (ct : Z),
    v_ptime v = ct -> v_pwait v = ct -> v_psvc v = ct ->
    Sched dur (a_loc (w_act s)) (a_dep (w_act s)) r ->
    let st := tour_stat dur dist v (s :: r) in st_cost st = core_route_cost v (st_dist st) (st_dur st).
Proof. exact cost_is_core_cost. Qed.

(* the overall statistic is the field-wise sum of the tours *)
Theorem C03_total_is_sum :
  forall l : list sstat,
    stat_fields (write_total l) =
    [sumz (map st_cost l); sumz (map st_dist l); sumz (map st_dur l); sumz (map st_drive l); sumz (map st_serve l);
     sumz (map st_wait l); sumz (map st_break l)].
Proof. exact total_is_sum. Qed.

(* tags.  Full clause: "the reported tag is the tag of the place (location, duration, time window) actually used".
   Partial: true when the used place is the only TAGGED place of its task at that location. *)
Theorem C03_tag_is_used_place_partial :
  forall (tk : ptask) (p : pplace) (w : Z * Z),
    In p (tk_places tk) -> In w (pl_tws p) -> fst w <= snd w -> pl_tag p <> None ->
    (forall p', In p' (tk_places tk) -> pl_tag p' <> None -> pl_loc p' = pl_loc p -> p' = p) ->
    job_tag tk (pl_loc p) w = pl_tag p.
Proof. exact tag_is_used_place_partial. Qed.

Theorem C03_tag_is_used_place_refuted :
  exists tk p w, In p (tk_places tk) /\ In w (pl_tws p) /\ fst w <= snd w /\ job_tag tk (pl_loc p) w <> pl_tag p.
Proof. exact tag_is_used_place_refuted. Qed.

(* breaks: the replayed statistic splits the service time of the visited activities into `serving` and `break` (the durations
   of the break activities); without break activities break = 0, the case Model/Writer.v covers *)
Theorem C03_replay_break_split : forall P vt acts,
  st_serve (replay_stat P vt acts) + st_break (replay_stat P vt acts) = replay_serving acts.
Proof. exact replay_stat_break_split. Qed.

Theorem C03_replay_no_break : forall acts,
  forallb (fun a => negb (is_break_act a)) (tl acts) = true -> replay_break acts = 0.
Proof. exact replay_break_none. Qed.

(* a document whose tour takes a break (reported in the `break` part, 5 s) is accepted by the whole checker *)
Theorem C03_nonvacuous_break : valid_b ex_Pb ex_Sb = [] /\ st_break (sl_stat ex_Sb) = 5.
Proof. exact ex_break_stat. Qed.

(* general routing data (several profiles, profile scale, time-dependent matrices; Spec/ValidTD.v over the provider model of
   C16): every leg is evaluated at its departure time.  With routing functions that ignore the departure the departure-dependent
   replay IS the replay above - schedule, cumulative distance, and the whole statistic - so on the classic fragment nothing changed *)
Theorem C03_td_replay_conservative : forall (dur : Z -> Z -> Z) (t : list act), replay_td (cst dur) t = replay dur t.
Proof. exact replay_td_const. Qed.

Theorem C03_td_cumdist_conservative : forall (dur dist : Z -> Z -> Z) (t : list act),
  replay_cumdist_td (cst dur) (cst dist) t = replay_cumdist dist t.
Proof. exact replay_cumdist_td_const. Qed.

Theorem C03_td_statistic_conservative : forall P vt acts,
  replay_stat_td (cst (pdur P)) (cst (pdist P)) vt acts = replay_stat P vt acts.
Proof. exact replay_stat_td_const. Qed.

Theorem C03_no_general_routing_is_replay_viol : forall P S, replay_viol_x None P S = replay_viol P S.
Proof. exact replay_viol_x_none. Qed.

(* non-vacuity: two matrices for the one profile, stamped 0 and 100 (distances 10 apart, then 15; durations 10, then 30: one
   second per 5 seconds of later departure); the first leg departs at 0 (duration 10, distance 10), the second at 115, after the
   second timestamp (duration 30, distance 15): accepted; the same document with the second leg taken from the FIRST matrix
   (what seeded mutant C03-2 writes) is rejected *)
Theorem C03_td_examples :
  valid_td ex_R ex_Ptd ex_S_td = [] /\ replay_viol_td ex_R ex_Ptd ex_S_td_first = [RDistance 0 2; RStatDistance 0; RStatCost 0].
Proof. exact ex_td. Qed.

(* ---- non-vacuity *)
(* the whole checker accepts a concrete document ... *)
Theorem C03_nonvacuous_valid : valid_b ex_P ex_S = [].
Proof. exact ex_valid. Qed.
(* ... which is exactly what the writer model writes for that tour ... *)
Theorem C03_nonvacuous_writer : run_writer ex_P ex_S = ([Some (to_stops ex_tour, ex_stat)], ex_stat).
Proof. exact ex_writer. Qed.
(* ... and rejects the same document with the cost off by one *)
Theorem C03_nonvacuous_rejects : replay_viol ex_P ex_S_cost = [RStatCost 0].
Proof. exact ex_cost_rejected. Qed.

(* ---------------------------------------------------------------------------------------------------------------------------
   ROUND FOUR (Spec/ValidX.v): features the end-to-end generator did not produce before. *)
From VRP Require Import Spec.ValidX Proofs.ValidXP.

(* REPLACEMENT tasks (jobs.md: "a new good to be loaded at the beginning of the journey and old replaced one brought to journey's
   end"): the replayed load does not change at a replacement activity (the new good leaves, the old one comes on board) ... *)
Theorem C03_replacement_load_constant : forall a l,
  is_repl_act a = true -> d_ps (a_dem a) = d_ds (a_dem a) -> Intervals.load_after l [a] = l.
Proof. exact repl_load_constant. Qed.

(* ... which is the shape Valid.demand_of gives every replacement task *)
Theorem C03_replacement_demand : forall job tk, tk_kind tk = 3 -> 0 < tk_demand tk ->
  demand_of job tk = mkDemand (tk_demand tk) 0 (tk_demand tk) 0.
Proof. exact demand_of_replacement. Qed.

(* non-vacuity / witness: a document with a replacement of demand 4 (loads 4, 5, 5, 0) is accepted by the whole checker; the
   same document reporting the load of a plain delivery behind the replacement (the replaced good counted once) gives
   exactly [RLoad 0 2] *)
Theorem C03_nonvacuous_replacement :
  valid_b ex_Pr ex_Sr ++ mixed_viols ex_Pr ex_Sr = [] /\ valid_b ex_Pr ex_Sr_once = [RLoad 0 2].
Proof. exact (conj (proj1 ex_replacement) (proj2 (proj2 ex_replacement))). Qed.

(* REQUIRED BREAKS: the schedule is replayed around the break intervals the tour reports.  The clock: something that starts at s
   and needs d units of time outside the (sorted, disjoint) intervals B is over at `adv B s d`, and that is THE moment t >= s
   that is not strictly inside an interval, has exactly d units outside the intervals between s and t, and is the first such
   moment *)
Theorem C03_clock_sound_complete : forall B s d t, iv_ok B = true -> 0 <= d -> (adv B s d = t <-> AdvSpec B s d t).
Proof. exact adv_iff. Qed.

(* without required breaks the replay that runs (`replay4`) IS Valid.replay_viol ++ Valid.xreplay_viols *)
Theorem C03_no_required_breaks_is_replay_viol : forall P S, replay4 X0 XS0 P S = replay_viol P S ++ xreplay_viols P S.
Proof. exact replay4_X0. Qed.

Theorem C03_required_break_clock_examples :
  adv [(12, 16)] 10 5 = 19 /\ adv [(4, 7)] 0 10 = 13 /\ adv [(12, 16)] 14 0 = 16 /\ adv [(12, 16)] 12 0 = 12
  /\ net [(12, 16)] 10 19 = 5 /\ net [(12, 16)] 10 15 = 2.
Proof. exact ex_clock. Qed.

(* non-vacuity: a service interrupted by a required break (10 .. 19 for 5 s of work around the break 12 .. 16; statistic break 4)
   and a break taken while driving (stop without location 4 .. 7, arrival 13 instead of 10) are replayed exactly *)
Theorem C03_nonvacuous_required_break :
  valid4 ex_Xq XS0 ex_P ex_Sq = [] /\ st_break (sl_stat ex_Sq) = 4 /\ valid4 ex_Xt XS0 ex_P ex_St = [] /\ st_break (sl_stat ex_St) = 3.
Proof.
  split; [exact (proj1 ex_required_break)|]. split; [reflexivity|]. split; [exact (proj1 (proj2 ex_required_break))|reflexivity].
Qed.

(* finding C03-F4, witness: a break taken while the vehicle waits.  The times are a SPLIT of the duration (statistic.md): 45 =
   driving 20 + serving 5 + waiting 15 + break 5, cost 117; the document the writer produces reports waiting 20 (arrival to start,
   the break's 5 s once more) and cost 127: exactly [RStatWaiting 0; RStatCost 0], and 20 + 5 + 20 + 5 is not the duration *)
Theorem C03_break_while_waiting_counted_twice_refuted :
  valid4 ex_Xw XS0 ex_Pw ex_Sw = [] /\ valid4 ex_Xw XS0 ex_Pw ex_Sw_twice = [RStatWaiting 0; RStatCost 0] /\ 20 + 5 + 20 + 5 <> 45.
Proof. exact ex_required_break_waiting. Qed.

(* VICINITY CLUSTERING: for a tour with a clustered stop the replay (ValidX.replay_tour_cl) follows the driver through every stop
   (parking, forward commute from where he is, service, backward commute: RParking / RCommute / RStopDeparture), checks every
   leg between consecutive STOP locations on the reported departure and cumulative distance of the stop before it - sound and
   complete for the declarative statement - the loads and the statistic (commuting / parking parts included) *)
Theorem C03_cluster_legs_checker_sound_complete : forall P k t, outer_viol P k t = [] <-> LegsReplayed P t.
Proof. exact outer_viol_nil. Qed.

(* non-vacuity / witness: the clustered example document is replayed exactly; with the member's forward commute starting at
   another location than where the driver is the verdict is exactly [RCommute 0 2] *)
Theorem C03_nonvacuous_cluster :
  valid4 ex_Xc ex_XSc ex_Pc ex_Sc = [] /\ replay4 ex_Xc ex_XSc_bad ex_Pc ex_Sc = [RCommute 0 2].
Proof. exact (conj (proj1 ex_cluster) (proj1 (proj2 (proj2 ex_cluster)))). Qed.

(* ---------------------------------------------------------------------------------------------------------------------------
   ROUND FIVE (Spec/ValidY.v): RECHARGE STATIONS.  A recharge stop is replayed like a job activity - travel to the station, start =
   max(arrival, start of a time window of the station), + the station's duration, load unchanged, cumulative distance, tag of the
   station used - by the very functions above: the replay that runs (`replay5`) is `replay_viol_x ++ xreplay_viols` on the
   document in which every recharge activity is the demand-free service activity of a pseudo job that offers the stations of
   the tour's shift; the station's duration is reported as SERVING time. *)
From VRP Require Import Spec.ValidY Proofs.ValidYP.

(* conservativity: for a problem without recharges it IS the replay of the earlier rounds (R = None: Valid.replay_viol) *)
Theorem C03_no_recharges_is_replay_viol : forall R P S, replay5 Y0 R P S = replay_viol_x R P S ++ xreplay_viols P S.
Proof. exact replay5_Y0. Qed.

(* non-vacuity / witness: the example document (a recharge of 5 s: serving 5 + 5, duration 50, cost 7 + 40 + 100) is replayed
   exactly; the same document with the recharge's 5 s missing from the serving time is exactly [RStatServing 0] *)
Theorem C03_nonvacuous_recharge :
  all5 (ex_Yrc 30) ex_Prc ex_Src = [] /\ st_serve (sl_stat ex_Src) = 10
  /\ replay5 (ex_Yrc 30) None ex_Prc ex_Src_bad = [RStatServing 0].
Proof. split; [exact (proj1 ex_recharge)|]. split; [reflexivity|exact ex_recharge_serving]. Qed.

(* REQUIRED BREAKS, one more rule (round five): a break the tour REPORTS is taken DURING the tour.  The tour begins when the vehicle
   departs (duration and cost are counted from there), so every reported break begins at or after the departure - or, two moments
   with nothing but reported break time between them being the same moment as everywhere in ValidX, the whole time from its
   beginning to the reported departure is break time.  (An exact-time break between the shift's earliest start and a departure the
   solver moved later is no part of the tour: seeded change C03-6 wrote it into the departure stop and counted it in times.break.)
   The checker lists exactly the (tour, break start) pairs that violate it *)
Theorem C03_reported_breaks_inside_tour_sound_complete : forall X S,
  break_span_viols X S = [] <-> forall t, In t (sl_tours S) -> BreaksInsideTour X t.
Proof. exact break_span_viols_nil. Qed.

(* non-vacuity / witness: the required-break example lies inside its tour; the same break reported -5 .. -1, over before the
   departure at 0, is exactly [(tour 0, -5)]; reported -2 .. 2 it is the same moment as the departure *)
Theorem C03_nonvacuous_reported_breaks_inside_tour :
  break_span_viols ex_Xq ex_Sq = [] /\ break_span_viols ex_Xq ex_Sq_early = [(0, -5)]
  /\ span_ok [(-2, 2)] 0 (-2) = true /\ span_ok [(-5, -1)] 0 (-5) = false.
Proof. exact ex_break_span. Qed.
