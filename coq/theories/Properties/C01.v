(* C01 — Returned tours never violate a hard constraint.
   Proof part: the modelled construction and search steps (accepted insertions, removals) keep every tour feasible in the
   sense of the independent simulation Spec/Feasible.v (time windows incl. the shift end as the end activity's window,
   capacity at every point).  The end-to-end oracle evaluates the SAME `feasible` on the tours of the solutions the real
   solver returns (tools/props/c01.py); skills, limits and the other static rules are checked there only. *)
From VRP Require Import Base.Tac Model.Core Spec.Feasible Proofs.CoreTimeP Proofs.CoreEvalP Proofs.CoreRemoveP.

(* every insertion the evaluator accepts keeps the tour feasible: any matrix, open/closed tours, static and dynamic demand *)
Theorem C01_accepted_insertion_feasible : forall dur v t idx target,
  (idx < length t)%nat -> sched_ok dur t -> d_change (a_dem (hd target t)) = 0 -> simple_demand (a_dem target) ->
  feasible dur v t = true -> eval_activity dur v t idx target = None ->
  feasible dur v (insert_after t idx target) = true.
Proof. exact eval_activity_sound. Qed.

(* construction: any number of accepted insertions, each followed by the schedule refresh (accept_route_state) *)
Theorem C01_construction_feasible : forall dur v t t',
  ins_history dur v t t' -> good dur v t -> good dur v t'.
Proof. exact construction_good. Qed.

(* ruin: removing a (static-demand) job activity keeps feasibility when durations satisfy the triangle inequality *)
Theorem C01_removal_feasible_metric : forall dur v t idx,
  (forall a b c, dur a c <= dur a b + dur b c) ->
  (0 < idx < length t)%nat -> sched_ok dur t ->
  (let x := nth idx t (mkAct 0 0 0 0 0 dzero 0 0) in
   0 <= a_svc x /\ 0 <= d_ps (a_dem x) /\ 0 <= d_ds (a_dem x) /\ d_pd (a_dem x) = 0 /\ d_dd (a_dem x) = 0) ->
  feasible dur v t = true -> feasible dur v (remove_at t idx) = true.
Proof. exact removal_feasible_metric. Qed.

(* search: any finite history of accepted insertions and removals *)
Theorem C01_search_history_feasible : forall dur v,
  (forall a b c, dur a c <= dur a b + dur b c) ->
  forall t t', tour_history dur v t t' -> good dur v t -> good dur v t'.
Proof. exact history_good. Qed.

(* the triangle hypothesis is needed: with a non-metric matrix a removal makes a later activity late; nothing in the
   modelled ruin step re-checks the tour (DESIGN.md 7.5) *)
Theorem C01_removal_nonmetric_refuted :
  exists (dur : Z -> Z -> Z) v t idx,
    sched_ok dur t /\ feasible dur v t = true /\ (0 < idx < length t)%nat /\ feasible dur v (remove_at t idx) = false.
Proof. exact removal_nonmetric_refuted. Qed.
