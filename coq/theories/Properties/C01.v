(* C01 — Returned tours never violate a hard constraint.
   Proof part: the modelled construction and search steps (accepted insertions, removals) keep every tour feasible in the
   sense of the independent simulation Spec/Feasible.v (time windows incl. the shift end as the end activity's window,
   capacity at every point).  The end-to-end oracle evaluates the SAME `feasible` on the tours of the solutions the real
   solver returns (tools/props/c01.py); skills, limits and the other static rules are checked there only. *)
From VRP Require Import Base.Tac Model.Core Spec.Feasible Proofs.CoreTimeP Proofs.CoreEvalP Proofs.CoreRemoveP.
From VRP Require Import Spec.Intervals Proofs.IntervalsP Spec.Valid Proofs.ValidP Proofs.ReachP Spec.ValidTD Proofs.ValidTDP.
From VRP Require Import Spec.Relations Proofs.RelationsP.

(* every insertion the evaluator accepts keeps the tour feasible: any matrix, open/closed tours, static and dynamic demand *)
Theorem C01_accepted_insertion_feasible : forall dur v t idx target,
  (idx < length t)%nat -> sched_ok dur t -> d_change (a_dem (hd target t)) = 0 -> simple_demand (a_dem target) ->
  feasible dur v t = true -> eval_activity dur v t idx target = None ->
  feasible dur v (insert_after t idx target) = true.
Proof. exact eval_activity_sound. Qed.

(* construction: any number of accepted insertions, each followed by the schedule refresh (accept_route_state) *)
Theorem C01_construction_feasible : forall dur v t t',
  ins_history dur v t t' -> good dur v t -> good dur v t'.
Proof. exact construction_good. Qed.

(* ruin: removing a (static-demand) job activity keeps feasibility when durations satisfy the triangle inequality *)
Theorem C01_removal_feasible_metric : forall dur v t idx,
  (forall a b c, dur a c <= dur a b + dur b c) ->
  (0 < idx < length t)%nat -> sched_ok dur t ->
  (let x := nth idx t (mkAct 0 0 0 0 0 dzero 0 0) in
   0 <= a_svc x /\ 0 <= d_ps (a_dem x) /\ 0 <= d_ds (a_dem x) /\ d_pd (a_dem x) = 0 /\ d_dd (a_dem x) = 0) ->
  feasible dur v t = true -> feasible dur v (remove_at t idx) = true.
Proof. exact removal_feasible_metric. Qed.

(* search: any finite history of accepted insertions and removals *)
Theorem C01_search_history_feasible : forall dur v,
  (forall a b c, dur a c <= dur a b + dur b c) ->
  forall t t', tour_history dur v t t' -> good dur v t -> good dur v t'.
Proof. exact history_good. Qed.

(* the triangle hypothesis is needed: with a non-metric matrix a removal makes a later activity late; nothing in the
   modelled ruin step re-checks the tour (DESIGN.md 7.5) *)
Theorem C01_removal_nonmetric_refuted :
  exists (dur : Z -> Z -> Z) v t idx,
    sched_ok dur t /\ feasible dur v t = true /\ (0 < idx < length t)%nat /\ feasible dur v (remove_at t idx) = false.
Proof. exact removal_nonmetric_refuted. Qed.

(* ---------------------------------------------------------------------------------------------------------------------------
   The rules the end-to-end checker evaluates on every returned document besides `feasible` (Spec/Valid.v, second part of
   group F): each executable checker is sound and complete for its declarative statement. *)

(* compatibility (jobs with different classes never share a tour), groups (the assigned jobs of one group are in ONE
   tour), reachability (no leg of the reported visiting order is marked unreachable by errorCodes) *)
Theorem C01_static_rules_checker_sound_complete : forall P S,
  compat_viols P S ++ group_viols P S ++ reach_viols P S = [] <->
  (forall t, In t (sl_tours S) -> Compatible P t) /\ Grouped P S /\ (forall t, In t (sl_tours S) -> Reachable P t).
Proof. exact static_rules_nil. Qed.

(* skills: allOf, oneOf, noneOf *)
Theorem C01_skills_checker_sound_complete : forall vt job,
  skills_ok vt job = true <->
  (forall s, In s (pj_skills job) -> In s (vt_skills vt))
  /\ (pj_one job = [] \/ exists s, In s (pj_one job) /\ In s (vt_skills vt))
  /\ (forall s, In s (pj_none job) -> ~ In s (vt_skills vt)).
Proof. exact skills_ok_iff. Qed.

(* capacity in every further dimension: nothing is reported iff every tour, projected on each extra dimension, is
   load-feasible for the same independent simulation (per reload interval, Spec.Intervals.ivl_load_feasible; it is
   Spec.Feasible.load_feasible for a tour without reloads) that dimension 0 is checked with *)
Theorem C01_capacity_every_dimension : forall P S,
  dims_feasible_viols P S = [] <->
  forall n t d r, nth_error (sl_tours S) n = Some t -> (d < xdims P)%nat ->
                  rebuild (dim_problem d P) (dim_tour d t) = Some r -> ivl_load_feasible (v_cap (rb_veh r)) (rb_acts r) = true.
Proof. exact dims_feasible_viols_nil. Qed.

(* task order (hard unless a tour-order objective is given): nothing is reported iff along every tour that can be rebuilt the
   order keys (the order value, or "after everything" for a task without order) of the job activities never decrease *)
Theorem C01_task_order_checker_sound_complete : forall P S,
  order_viols P S = [] <->
  forall n t r, nth_error (sl_tours S) n = Some t -> rebuild (order_problem P) t = Some r -> Sorted (order_seq r).
Proof. exact order_viols_nil. Qed.

(* optional breaks, placement: nothing is reported iff every break activity uses a place of a break defined for the tour's
   vehicle shift - the place's duration and the break's time (relative to the tour's departure for an offset break) explain
   the reported interval - at that place's location or, for a place without location, where the previous activity of the
   tour took place.  (The break's time window itself is part of the rebuilt activity list: FInfeasible / `feasible`.) *)
Theorem C01_break_placement_checker_sound_complete : forall P S,
  break_place_viols P S = [] <-> forall t, In t (sl_tours S) -> BreaksPlaced P t.
Proof. exact break_place_viols_nil. Qed.

(* non-vacuity: a tour that takes its location-less offset break at the customer it just served is accepted by the whole
   checker; the same break taken at another location is reported *)
Theorem C01_break_examples :
  valid_b ex_Pb ex_Sb = [] /\ In (FBreakPlace 0 2) (valid_b ex_Pb ex_Sb_bad).
Proof. exact ex_break. Qed.

(* relation pinning (Spec/Relations.v): nothing is reported iff for every relation of the plan
   - vehicle: no tour of another vehicle shift serves one of its jobs, and (sequence / strict) its own tour serves all of them;
   - order (sequence / strict): what its tour serves of its jobs is exactly the listed sequence (a job with several tasks is
     listed once per task);
   - contiguity (strict): the listed sequence is a contiguous block of everything the tour serves (jobs, breaks, reloads);
   - anchoring (strict): with `departure` first the block opens the tour, with `arrival` last it closes it *)
Theorem C01_relation_pinning_checker_sound_complete : forall rels S,
  rel_viols rels S = [] <-> forall r, In r rels -> RelPinned S r.
Proof. exact rel_viols_nil. Qed.

Theorem C01_relation_examples :
  rel_viols [mkPRel 2 1 0%nat [REL_DEPARTURE; 1; REL_ARRIVAL]] ex_S = []
  /\ rel_viols [mkPRel 0 2 0%nat [1]] ex_S = [FRelVehicle 0]
  /\ rel_viols [mkPRel 1 1 0%nat [2; 1]] ex_S = [FRelVehicle 0; FRelOrder 0].
Proof. exact ex_rel. Qed.

(* general routing data (several profiles, profile scale, time-dependent matrices; Spec/ValidTD.v over the provider model of
   C16): the end-to-end checker then evaluates every leg at its departure time (`time_feasible_td`, limits on `tour_dist_td` /
   `replay_duration_td`).  With routing that ignores the departure it IS `Feasible.time_feasible` / the distance and duration the
   limits are checked with above; without such data the plugins evaluate Valid.feasible_viols itself *)
Theorem C01_td_time_feasible_conservative : forall (dur : Z -> Z -> Z) (t : list act),
  time_feasible_td (cst dur) t = time_feasible dur t.
Proof. exact time_feasible_td_const. Qed.

Theorem C01_td_limits_conservative : forall (dur dist : Z -> Z -> Z) (t : list act),
  tour_dist_td (cst dur) (cst dist) t = tour_legs dist t /\ replay_duration_td (cst dur) t = replay_duration dur t.
Proof. exact (fun dur dist t => conj (tour_dist_td_const dur dist t) (replay_duration_td_const dur t)). Qed.

Theorem C01_no_general_routing_is_feasible_viols : forall P S, feasible_viols_x None P S = feasible_viols P S.
Proof. exact feasible_viols_x_none. Qed.

(* finding C01-F5, witness: with a travel time that grows with the departure time, moving the departure by the slack of the current
   schedule (try_advance_departure_time assumes arrivals move 1:1 with the departure) makes the tour miss the window *)
Theorem C01_departure_shift_time_dependent_refuted :
  time_feasible_td ex_dur_f5 (ex_tour_f5 50) = true
  /\ 50 + ex_dur_f5 0 1 50 = 87 /\ 87 + 28 = 115
  /\ 78 + ex_dur_f5 0 1 78 = 133
  /\ time_feasible_td ex_dur_f5 (ex_tour_f5 78) = false.
Proof. exact ex_departure_shift_td. Qed.

(* reachability, step level: an insertion that passed the gate of ReachableConstraint (prev -> target, target -> next) keeps
   every leg reachable ... *)
Theorem C01_reachable_insertion_sound : forall err t idx a,
  tour_reachable err t = true -> reach_gate err t idx a = true -> tour_reachable err (insert_after t idx a) = true.
Proof. exact reach_insertion_sound. Qed.

(* ... but a removal is not gated: the full statement "every search step keeps every leg reachable" is refuted by the
   removal step (finding C01-F4: 0 -> 2 -> 1 -> 0 with only 2 -> 0 unreachable; removing the job at 1 leaves 0 -> 2 -> 0) *)
Theorem C01_removal_unreachable_refuted :
  exists (err : Z -> Z -> Z) t idx,
    tour_reachable err t = true /\ (0 < idx < length t)%nat /\ tour_reachable err (remove_at t idx) = false.
Proof. exact removal_unreachable_refuted. Qed.

(* ---------------------------------------------------------------------------------------------------------------------------
   Capacity PER RELOAD INTERVAL (Spec/Intervals.v): static deliveries of an interval are on board from its start, static
   pickups until its end, shipments (dynamic demand) are carried across the reload. *)

(* the executable per-interval checker is sound and complete for the declarative statement: in every interval, starting with
   what is carried over plus the interval's static deliveries, the load after every prefix of the interval is within capacity *)
Theorem C01_interval_capacity_checker_sound_complete : forall cap carry iv,
  ivl_feasible cap carry iv = true <-> IvlOk cap carry iv.
Proof. exact (fun cap carry iv => ivl_feasible_iff cap iv carry). Qed.

(* without reload activities it IS the simulation the step theorems above are about: `feasible_x` (what the end-to-end checker
   evaluates, Valid.feasible_viol) = `Spec.Feasible.feasible`, so C01_accepted_insertion_feasible etc. keep their meaning *)
Theorem C01_single_interval_is_feasible : forall dur v t,
  forallb (fun a => negb (is_reload a)) t = true -> feasible_x dur v t = feasible dur v t.
Proof. exact feasible_x_single. Qed.

(* non-vacuity / witness: capacity 2, two trips of two static deliveries are fine per interval (and would not be as one
   interval); a shipment picked up in the first trip and delivered in the second overloads the second trip (3 on board when
   leaving the reload place) - the situation of seeded mutant C01-1 *)
Theorem C01_interval_capacity_examples :
  ivl_load_feasible 2 ex_two_trips = true /\ load_feasible 2 ex_two_trips = false
  /\ ivl_load_feasible 2 ex_carry = false /\ ivl_loads_of ex_carry = [1; 0; 1; 3; 2; 1; 0; 0].
Proof. split; [apply ex_two_trips_ok|]. split; [apply ex_two_trips_ok|]. exact ex_carry_overloaded. Qed.

(* ---------------------------------------------------------------------------------------------------------------------------
   ROUND FOUR of the end-to-end checker (Spec/ValidX.v): REPLACEMENT tasks (jobs.md "Replacement job": "a new good to be loaded
   at the beginning of the journey and old replaced one brought to journey's end").  Valid.demand_of gives a replacement
   activity the static delivery AND the static pickup of its demand; what that means for the capacity rule: the checker's
   verdict (per reload interval) on a tour is its verdict on the tour in which every replacement activity is replaced by a
   static delivery directly followed by a static pickup at the same place - for ANY tour and capacity *)
From VRP Require Import Spec.ValidX Proofs.ValidXP.

Theorem C01_replacement_is_delivery_then_pickup : forall cap t,
  ivl_load_feasible cap (split_repl t) = ivl_load_feasible cap t.
Proof. exact split_load_feasible. Qed.

(* non-vacuity / witness: static pickup of 1, then a replacement of 4: the loads are 4, 5, 5, 5 (split: 4, 5, 1, 5, 5), so
   capacity 5 is enough and capacity 4 is not - although the replacement "delivers" 4 *)
Theorem C01_replacement_capacity_example :
  ivl_load_feasible 5 ex_repl_tour = true /\ ivl_load_feasible 4 ex_repl_tour = false
  /\ ivl_loads_of ex_repl_tour = [4; 5; 5; 5]
  /\ ivl_loads_of (split_repl ex_repl_tour) = [4; 5; 1; 5; 5].
Proof. exact ex_replacement_capacity. Qed.

(* ---------------------------------------------------------------------------------------------------------------------------
   STEP LEVEL for tour limits, tour size, skills and locks (so far judged on whole solver outputs only): Model/Limits.v
   (tour_limits.rs, travel_info.rs, skills.rs, locked_jobs.rs), the extended simulation Spec/FeasibleX.v, Proofs/LimitsP.v; tied
   to the code by the C06 sub-stream `c06_limits`.  (The imports are local to this section: both Spec/Valid.v and
   Spec/FeasibleX.v define `zmem`.) *)
From VRP Require Spec.FeasibleX Model.Eval Model.Limits Proofs.LimitsP Proofs.LimitsValidP.
Section C01_limits_step.
Import FeasibleX Eval Limits LimitsP LimitsValidP.

(* the quantities of the step-level notion ARE the quantities the end-to-end checker (Valid.feasible_viol: FMaxDistance,
   FMaxDuration, FSkills; the tour size is the number of job activities in both) evaluates on returned documents *)
Theorem C01_limits_checker_agrees_with_step_spec :
  (forall m t, tour_legs m t = tour_distance m t) /\
  (forall dur t, replay_duration dur t = tour_duration dur t) /\
  (forall x lim, le_opt x lim = le_lim x lim) /\
  (forall vt job, skills_ok vt job = skills_sat_b (vt_skills vt) (mkReq (pj_skills job) (pj_one job) (pj_none job))).
Proof. exact (conj tour_legs_is_tour_distance (conj replay_duration_is_tour_duration (conj le_opt_is_le_lim skills_ok_is_skills_sat_b))). Qed.

(* every insertion the evaluator answers with success keeps the tour feasible INCLUDING max distance, max duration, tour size and
   the skills of every job on board: any matrix, open / closed tours, any number of places and windows, any position mode *)
Theorem C01_accepted_insertion_feasible_x : forall dur dist g v shift_start closed req t j js pos idx pl c,
  goodx dur dist g v closed req t -> simple_demand (s_dem j) -> 0 <= s_id j -> req (s_id j) = req_of js ->
  eval_single_x dur dist g v shift_start closed t j js pos = ESuccess idx pl c ->
  (idx < leg_count closed t)%nat /\
  FeasibleX dur dist v (g_lim g) (olist (g_vskills g)) req (insert_after t idx (place_act j pl)).
Proof. exact eval_single_x_sound. Qed.

(* construction: any number of accepted evaluations of jobs outside the strict rules, each really applied (insert + schedule
   refresh), keeps the tour feasible in that sense AND keeps every strict block contiguous, ordered and anchored *)
Theorem C01_construction_feasible_x : forall dur dist g v shift_start closed req t t',
  ins_history_xl dur dist g v shift_start closed req t t' ->
  goodx dur dist g v closed req t /\ locks_ok g t -> goodx dur dist g v closed req t' /\ locks_ok g t'.
Proof. exact construction_good_xl. Qed.

(* relation pinning, vehicle: a job whose lock does not allow the tour's actor is never accepted *)
Theorem C01_lock_condition_sound : forall dur dist g v shift_start closed t j js pos idx pl c,
  eval_single_x dur dist g v shift_start closed t j js pos = ESuccess idx pl c -> zassoc (s_id j) (g_conds g) <> Some false.
Proof. exact lock_condition_sound. Qed.

(* the merge rule of the skills feature (vicinity clustering folds a candidate into a cluster that keeps the SOURCE's skills) is
   SOUND for all three sets: every vehicle that meets the requirement of the merged (= source) record meets the candidate's - so a
   clustered job is never served by a vehicle without its skills.  (Records as JobSkills::new builds them: no empty oneOf set.) *)
Theorem C01_skills_merge_sound : forall vs src cand,
  merge_skills src cand = true -> (forall s, src = Some s -> js_one s <> Some []) ->
  SkillsSat vs (req_of src) -> SkillsSat vs (req_of cand).
Proof. exact merge_skills_sound. Qed.

(* the same in terms of the evaluator: a vehicle accepted by the route-level skills test for the merged job *)
Theorem C01_skills_merge_accepted_vehicle_sound : forall vs src cand,
  merge_skills src cand = true -> (forall s, src = Some s -> js_one s <> Some []) ->
  eval_route_skills vs src = None -> SkillsSat (olist vs) (req_of cand).
Proof. exact merge_skills_accepted_sound. Qed.

(* finding C01-F10 (repaired in /repo by ee5718d): the rule as it WAS wanted candidate.oneOf to be a SUBSET of source.oneOf
   (source {1,2}, candidate {1}: a vehicle with skill 2 serves the cluster, the candidate's oneOf [1] is not met); the repaired
   rule refuses that pair.  Regression: c06_limits corpus case 8 and corpus/C01/extra/skills_one_of_clustered.json *)
Theorem C01_skills_merge_one_of_prefix_refuted : exists vs src cand,
  merge_skills_prefix src cand = true /\ eval_route_skills vs src = None /\ SkillsSat (olist vs) (req_of src) /\
  eval_route_skills vs cand = Some (CODE_SKILLS, true) /\ ~ SkillsSat (olist vs) (req_of cand) /\
  merge_skills src cand = false.
Proof. exact merge_skills_one_of_prefix_refuted. Qed.

(* the side condition of the two theorems is needed: an EMPTY oneOf set in the source (only constructible through the public
   fields, never by the problem reader) is a subset of every candidate set *)
Theorem C01_skills_merge_empty_one_of_witness :
  let src := Some (mkJS None (Some []) None) in let cand := Some (mkJS None (Some [1]) None) in
  merge_skills src cand = true /\ eval_route_skills None src = None /\ ~ SkillsSat [] (req_of cand).
Proof. exact merge_skills_empty_one_of_witness. Qed.

(* non-vacuity: see C06_limits_nonvacuous (a vehicle with all limits, skills and a strict lock; a history of two insertions) *)
Theorem C01_limits_nonvacuous :
  let w := w4 (Some 0) in
  goodx (wdur w) (wdist w) nv_goal (w_veh w) true nv_req nv_t0 /\ locks_ok nv_goal nv_t0 /\
  exists t2, ins_history_xl (wdur w) (wdist w) nv_goal (w_veh w) 0 true nv_req nv_t0 t2 /\
             tour_distance (wdist w) t2 = 40 /\ job_count t2 = 3%nat /\ served t2 = [1; 9; 8].
Proof. exact limits_nonvacuous. Qed.

End C01_limits_step.

(* =============================================================================================================================
   CAPACITY PER RELOAD INTERVAL, step level (multi-trip / multi-dimensional capacity code: Model/CapacityMT.v, lemmas
   Proofs/CapacityMTP.v, correspondence sub-stream c06_multitrip of C06).  The statement is Spec.Intervals.IvlOk above, one per
   capacity dimension.  (The imports are local to this section.) *)
From VRP Require Model.CapacityMT Proofs.CapacityMTP.
Section C01_multitrip.
Import Model.CapacityMT Proofs.CapacityMTP Proofs.CoreEvalP.

(* every insertion the multi-trip capacity constraint accepts keeps the load within the capacity in every reload interval:
   SingleDimLoad ... *)
Theorem C01_mt_accepted_insertion_keeps_intervals_single : forall t cap idx x,
  mt_tour_ok SingleOps t ->
  IvlOk cap 0 (ivls (proj_tour SingleOps get_single t)) ->
  (idx < length t)%nat -> is_marker_act SingleOps x = false ->
  simple_demand (a_dem (proj_act SingleOps get_single x)) ->
  (ga_multi x = false -> d_pd (a_dem (proj_act SingleOps get_single x)) = 0) ->
  mt_evaluate_activity SingleOps PolicyLast (accept_route_state SingleOps true (Some cap) t) idx x = None ->
  IvlOk cap 0 (ivls (proj_tour SingleOps get_single (ginsert_after t idx x))).
Proof. exact mt_insertion_sound_single. Qed.

(* ... and MultiDimLoad, in every capacity dimension *)
Theorem C01_mt_accepted_insertion_keeps_intervals_multi : forall t cap idx x,
  mt_tour_ok MultiOps t -> ml_tour_wf t -> act_wf MultiOps ml_wf x -> ml_wf cap ->
  (idx < length t)%nat -> is_marker_act MultiOps x = false ->
  mt_evaluate_activity MultiOps PolicyLast (accept_route_state MultiOps true (Some cap) t) idx x = None ->
  forall d, (d < LOAD_DIMENSION_SIZE)%nat ->
    IvlOk (ml_get cap d) 0 (ivls (proj_tour MultiOps (get_dim d) t)) ->
    simple_demand (a_dem (proj_act MultiOps (get_dim d) x)) ->
    (ga_multi x = false -> d_pd (a_dem (proj_act MultiOps (get_dim d) x)) = 0) ->
    IvlOk (ml_get cap d) 0 (ivls (proj_tour MultiOps (get_dim d) (ginsert_after t idx x))).
Proof. exact mt_insertion_sound_multi. Qed.

(* inserting a reload (a marker job without demand) anywhere keeps it too: the interval is split in two, no load grows *)
Theorem C01_mt_reload_insertion_keeps_intervals : forall O get wf, load_hom O get wf -> forall t cap idx m,
  IvlOk (get cap) 0 (ivls (proj_tour O get t)) -> (idx < length t)%nat ->
  is_marker_act O m = true -> ga_dem m = None -> static_amounts_nonneg (proj_tour O get t) ->
  IvlOk (get cap) 0 (ivls (proj_tour O get (ginsert_after t idx m))).
Proof. exact (fun O get wf _ => mt_marker_insertion_sound_dim O get). Qed.

(* non-vacuity / witness: see C06_mt_nonvacuous (two intervals, two dimensions, a shipment carried across the reload: 2 more are
   accepted in front of the reload, 3 more are rejected because of the interval BEHIND it) *)
Theorem C01_mt_nonvacuous :
  (forall d, (d < LOAD_DIMENSION_SIZE)%nat -> IvlOk (ml_get ex_mt_cap d) 0 (ivls (proj_tour MultiOps (get_dim d) ex_mt_tour))) /\
  mt_evaluate_activity MultiOps PolicyLast (accept_route_state MultiOps true (Some ex_mt_cap) ex_mt_tour) 1 (ex_mt_pick [2; 1]) = None /\
  mt_evaluate_activity MultiOps PolicyLast (accept_route_state MultiOps true (Some ex_mt_cap) ex_mt_tour) 1 (ex_mt_pick [3; 1]) = Some false.
Proof. exact (conj (proj1 (proj2 (proj2 (proj2 (proj2 ex_mt_facts))))) (conj (proj1 (proj2 (proj2 (proj2 (proj2 (proj2 (proj2 ex_mt_facts))))))) (proj1 (proj2 (proj2 (proj2 (proj2 (proj2 (proj2 (proj2 (proj2 ex_mt_facts))))))))))). Qed.

(* remove_trivial_markers (run by accept_solution_state, also at the end of a plain construction): when the obsolete-interval
   test of the reload feature (max-future load of the left interval + static deliveries of the right one, max-future load of the
   right interval + static pickups of the left one, both within the capacity) lets a reload go, every interval of the tour without
   that reload satisfies the capacity statement - in the dimension `get` of any load type *)
Theorem C01_mt_trivial_marker_removal_keeps_intervals : forall O get wf, load_hom O get wf -> forall t cap i,
  mt_tour_ok O t -> tour_wf O wf t -> wf cap ->
  IvlOk (get cap) 0 (ivls (proj_tour O get t)) ->
  trivial_marker O (accept_route_state O true (Some cap) t) = Some i ->
  IvlOk (get cap) 0 (ivls (proj_tour O get (remove_at i t))).
Proof. exact mt_trivial_marker_removal_sound_dim. Qed.

(* multi-dimensional capacity without reloads: every accepted insertion keeps Spec.Feasible.load_feasible in each dimension (the
   step-level counterpart of C01_capacity_every_dimension above) *)
Theorem C01_md_accepted_insertion_feasible_every_dimension : forall t cap idx x,
  mt_tour_ok MultiOps t -> ml_tour_wf t -> act_wf MultiOps ml_wf x -> ml_wf cap ->
  forallb (fun b => negb (is_marker_act MultiOps b)) t = true ->
  (idx < length t)%nat -> is_marker_act MultiOps x = false ->
  mt_evaluate_activity MultiOps PolicyLast (accept_route_state MultiOps false (Some cap) t) idx x = None ->
  forall d, (d < LOAD_DIMENSION_SIZE)%nat ->
    load_feasible (ml_get cap d) (proj_tour MultiOps (get_dim d) t) = true ->
    simple_demand (a_dem (proj_act MultiOps (get_dim d) x)) ->
    (ga_multi x = false -> d_pd (a_dem (proj_act MultiOps (get_dim d) x)) = 0) ->
    load_feasible (ml_get cap d) (proj_tour MultiOps (get_dim d) (ginsert_after t idx x)) = true.
Proof. exact md_insertion_sound_no_reloads. Qed.

End C01_multitrip.

(* REQUIRED BREAKS (vehicles.md; Spec/ValidX.v part 2): "break time windows" of the statement for breaks that have no place.
   The feasibility group that runs on every document (`feasible4`) evaluates every rule of Valid.feasible_viols /
   xfeasible_viols on the tour WITHOUT its required-break activities, with the clock that skips the reported break intervals;
   for a problem without required breaks it IS those two functions *)
Theorem C01_no_required_breaks_is_feasible_viols : forall P S, feasible4 X0 XS0 P S = feasible_viols P S ++ xfeasible_viols P S.
Proof. exact feasible4_X0. Qed.

(* the clock (arrival = adv B departure travel-time, end of work = adv B start service-time) is sound and complete for its
   declarative description *)
Theorem C01_clock_sound_complete : forall B s d t, iv_ok B = true -> 0 <= d -> (adv B s d = t <-> AdvSpec B s d t).
Proof. exact adv_iff. Qed.

(* "guaranteed to be assigned": the checker reports nothing iff every required break of the tour's shift whose latest start lies
   inside the tour's time span (departure <= latest < end of the last activity) is taken by some break activity of the tour *)
Theorem C01_required_breaks_taken_checker_sound_complete : forall X S,
  rb_missing_viols X S = [] <-> forall t, In t (sl_tours S) -> RBreaksTaken X t.
Proof. exact rb_missing_viols_nil. Qed.

(* the reserved time is used for nothing else: no FReservedTime iff every leg has its travel time and every activity its place's
   duration OUTSIDE the break intervals *)
Theorem C01_reserved_time_checker_sound_complete : forall dur B k l d0 i,
  reserved_from dur B k i (fa_loc d0) (fa_end d0) l = [] <-> ReservedRespected dur B d0 l.
Proof. exact (fun dur B k l d0 i => reserved_from_nil dur B k l d0 i). Qed.

(* non-vacuity / witnesses: both example documents pass the whole checker; a break that is listed while the vehicle reaches the
   next job as if it had not stopped is FReservedTime; the document without the break is exactly [FRequiredBreakMissing 0] *)
Theorem C01_required_break_examples :
  valid4 ex_Xq XS0 ex_P ex_Sq = [] /\ valid4 ex_Xt XS0 ex_P ex_St = []
  /\ In (FReservedTime 0 1) (feasible4 ex_Xt XS0 ex_P ex_St_bad)
  /\ feasible4 ex_Xq XS0 ex_P ex_S = [FRequiredBreakMissing 0].
Proof.
  split; [exact (proj1 ex_required_break)|]. split; [exact (proj1 (proj2 ex_required_break))|].
  split; [exact (proj1 (proj2 (proj2 ex_required_break)))|exact (proj1 (proj2 (proj2 (proj2 ex_required_break))))].
Qed.

(* VICINITY CLUSTERING (Spec/ValidX.v part 3): for a tour with a clustered stop the feasibility rules are evaluated on the
   activities attributed by kind and location (capacity per reload interval and in every dimension, skills, task order, limits
   on the stop-to-stop distance and the duration, tour size with the clustered activities of a stop counted as one), plus two
   rules of their own, each sound and complete for its declarative statement: every job activity starts inside a time window of
   a place (at its location) of the task it serves, and every cluster member lies within clustering.threshold of its stop *)
Theorem C01_cluster_windows_checker_sound_complete : forall k r, window_viol k r = [] <-> WindowsKept r.
Proof. exact window_viol_nil. Qed.

Theorem C01_cluster_threshold_checker_sound_complete : forall P X c xt k t, xp_cluster X = Some c ->
  (threshold_viol P X xt k t = [] <-> WithinThreshold P c xt t).
Proof. exact threshold_viol_nil. Qed.

Theorem C01_nonvacuous_cluster : valid4 ex_Xc ex_XSc ex_Pc ex_Sc = [] /\ is_cluster_tour (xt_of ex_XSc 0) = true.
Proof. exact (conj (proj1 ex_cluster) (proj2 (proj2 (proj2 (proj2 ex_cluster))))). Qed.

(* ---------------------------------------------------------------------------------------------------------------------------
   ROUND FIVE of the end-to-end checker (Spec/ValidY.v): RECHARGE STATIONS and SHARED RELOAD RESOURCES.  Nothing above changes:
   the extra problem data live in `ValidY.yproblem` next to the unchanged records, and a recharge activity (document kind 14) is
   shown to the functions above as the demand-free service activity of a pseudo job whose single task offers the stations of
   the tour's shift as its places - so its station's time windows, the two legs that reach and leave it (reachability), the tour
   size and every other rule are judged by the very functions of the earlier rounds (`feasible5`). *)
From VRP Require Import Spec.ValidY Proofs.ValidYP.

(* RECHARGE DISTANCE (vehicles.md: "max distance limit before recharge should happen"; model.rs: "Maximum traveled distance before
   recharge station has to be visited").  items = per activity behind the departure (is it a recharge?, distance of the leg that
   reaches it).  Statement: any stretch of the tour that begins at the departure or directly behind a recharge and passes no
   recharge on the way (it may end AT one, or anywhere) sums up to at most maxDistance.  The checker (a counter that is reset behind
   every recharge) says yes exactly then *)
Theorem C01_recharge_distance_checker_sound_complete : forall m items, seg_ok m 0 items = true <-> RechargeOk m items.
Proof. exact seg_ok_iff. Qed.

(* ... lifted to documents (classic routing data: the matrix distances between consecutive activities of the reported order) *)
Theorem C01_recharge_distance_viols_sound_complete : forall Y P S,
  recharge_dist_viols Y None P S = [] <->
  forall t i rc, In t (sl_tours S) -> recharge_of Y t = Some (i, rc) -> RechargeOk (rc_max rc) (tour_items (pdist P) t).
Proof. exact recharge_dist_viols_nil. Qed.

(* the task-order rule on such a document: the order values of the JOB activities (recharge activities left out) never decrease *)
Theorem C01_recharge_task_order_sound_complete : forall Y P' S',
  order_viols_y Y P' S' = [] <->
  forall n t r, nth_error (sl_tours S') n = Some t -> rebuild (order_problem P') t = Some r -> Sorted (order_seq_y Y r).
Proof. exact order_viols_y_nil. Qed.

(* conservativity: for a problem without recharges what runs (`feasible5`) IS what ran before - with classic routing data
   (R = None) Valid.feasible_viols ++ Valid.xfeasible_viols, otherwise the functions of Spec/ValidTD.v *)
Theorem C01_no_recharges_is_feasible_viols : forall R P S, feasible5 Y0 R P S = feasible_viols_x R P S ++ xfeasible_viols P S.
Proof. exact feasible5_Y0. Qed.

(* SHARED RELOAD RESOURCES (resources.md: "put limit on amount of deliveries in total loaded to the multiple vehicles on specific
   reload place"; capacity "has the same type as vehicle's capacity").  `resource_use Y P S res` = the static deliveries (incl.
   the new good of a replacement) served between a reload stop that draws on `res` and the next reload stop / the end of its
   tour, summed over ALL tours; statement: in every capacity dimension it stays within the resource's capacity.  The checker
   lists exactly the (resource, dimension) pairs for which it does not *)
Theorem C01_reload_resource_checker_sound_complete : forall Y P S, resource_viols Y P S = [] <-> ResourcesRespected Y P S.
Proof. exact resource_viols_nil. Qed.

(* non-vacuity: a tour that has driven EXACTLY maxDistance when it reaches its recharge station is accepted by the whole
   round-five checker; with the limit one unit lower the verdict is exactly [FRechargeDistance 0]; the declarative statements say
   the same.  A resource that is exactly exhausted is respected, one unit less is exactly [(resource 1, dimension 0)] *)
Theorem C01_nonvacuous_recharge :
  all5 (ex_Yrc 30) ex_Prc ex_Src = [] /\ all5 (ex_Yrc 29) ex_Prc ex_Src = [FRechargeDistance 0]
  /\ RechargeOk 30 (tour_items (pdist ex_Prc) (hd ex_tour (sl_tours ex_Src)))
  /\ ~ RechargeOk 29 (tour_items (pdist ex_Prc) (hd ex_tour (sl_tours ex_Src))).
Proof.
  split; [exact (proj1 ex_recharge)|]. split; [exact (proj1 (proj2 ex_recharge))|].
  exact (proj2 ex_recharge_declarative).
Qed.

Theorem C01_nonvacuous_reload_resource :
  valid_b ex_Prs ex_Srs = [] /\ resource_use (ex_Yrs 1) ex_Prs ex_Srs 1 = 1
  /\ resource_viols (ex_Yrs 1) ex_Prs ex_Srs = [] /\ resource_viols (ex_Yrs 0) ex_Prs ex_Srs = [(1, 0)]
  /\ ResourcesRespected (ex_Yrs 1) ex_Prs ex_Srs /\ ~ ResourcesRespected (ex_Yrs 0) ex_Prs ex_Srs.
Proof.
  destruct ex_resource as [H1 [H2 [H3 [H4 _]]]]. split; [exact H1|]. split; [exact H2|]. split; [exact H3|]. split; [exact H4|].
  exact ex_resource_declarative.
Qed.
