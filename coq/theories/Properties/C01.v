(* C01 — Returned tours never violate a hard constraint.
   Proof part: the modelled construction and search steps (accepted insertions, removals) keep every tour feasible in the
   sense of the independent simulation Spec/Feasible.v (time windows incl. the shift end as the end activity's window,
   capacity at every point).  The end-to-end oracle evaluates the SAME `feasible` on the tours of the solutions the real
   solver returns (tools/props/c01.py); skills, limits and the other static rules are checked there only. *)
From VRP Require Import Base.Tac Model.Core Spec.Feasible Proofs.CoreTimeP Proofs.CoreEvalP Proofs.CoreRemoveP.
From VRP Require Import Spec.Intervals Proofs.IntervalsP Spec.Valid Proofs.ValidP Proofs.ReachP Spec.ValidTD Proofs.ValidTDP.
From VRP Require Import Spec.Relations Proofs.RelationsP.

(* every insertion the evaluator accepts keeps the tour feasible: any matrix, open/closed tours, static and dynamic demand *)
Theorem C01_accepted_insertion_feasible : forall dur v t idx target,
  (idx < length t)%nat -> sched_ok dur t -> d_change (a_dem (hd target t)) = 0 -> simple_demand (a_dem target) ->
  feasible dur v t = true -> eval_activity dur v t idx target = None ->
  feasible dur v (insert_after t idx target) = true.
Proof. exact eval_activity_sound. Qed.

(* construction: any number of accepted insertions, each followed by the schedule refresh (accept_route_state) *)
Theorem C01_construction_feasible : forall dur v t t',
  ins_history dur v t t' -> good dur v t -> good dur v t'.
Proof. exact construction_good. Qed.

(* ruin: removing a (static-demand) job activity keeps feasibility when durations satisfy the triangle inequality *)
Theorem C01_removal_feasible_metric : forall dur v t idx,
  (forall a b c, dur a c <= dur a b + dur b c) ->
  (0 < idx < length t)%nat -> sched_ok dur t ->
  (let x := nth idx t (mkAct 0 0 0 0 0 dzero 0 0) in
   0 <= a_svc x /\ 0 <= d_ps (a_dem x) /\ 0 <= d_ds (a_dem x) /\ d_pd (a_dem x) = 0 /\ d_dd (a_dem x) = 0) ->
  feasible dur v t = true -> feasible dur v (remove_at t idx) = true.
Proof. exact removal_feasible_metric. Qed.

(* search: any finite history of accepted insertions and removals *)
Theorem C01_search_history_feasible : forall dur v,
  (forall a b c, dur a c <= dur a b + dur b c) ->
  forall t t', tour_history dur v t t' -> good dur v t -> good dur v t'.
Proof. exact history_good. Qed.

(* the triangle hypothesis is needed: with a non-metric matrix a removal makes a later activity late; nothing in the
   modelled ruin step re-checks the tour (DESIGN.md 7.5) *)
Theorem C01_removal_nonmetric_refuted :
  exists (dur : Z -> Z -> Z) v t idx,
    sched_ok dur t /\ feasible dur v t = true /\ (0 < idx < length t)%nat /\ feasible dur v (remove_at t idx) = false.
Proof. exact removal_nonmetric_refuted. Qed.

(* ---------------------------------------------------------------------------------------------------------------------------
   The rules the end-to-end checker evaluates on every returned document besides `feasible` (Spec/Valid.v, second part of
   group F): each executable checker is sound and complete for its declarative statement. *)

(* compatibility (jobs with different classes never share a tour), groups (the assigned jobs of one group are in ONE
   tour), reachability (no leg of the reported visiting order is marked unreachable by errorCodes) *)
Theorem C01_static_rules_checker_sound_complete : forall P S,
  compat_viols P S ++ group_viols P S ++ reach_viols P S = [] <->
  (forall t, In t (sl_tours S) -> Compatible P t) /\ Grouped P S /\ (forall t, In t (sl_tours S) -> Reachable P t).
Proof. exact static_rules_nil. Qed.

(* skills: allOf, oneOf, noneOf *)
Theorem C01_skills_checker_sound_complete : forall vt job,
  skills_ok vt job = true <->
  (forall s, In s (pj_skills job) -> In s (vt_skills vt))
  /\ (pj_one job = [] \/ exists s, In s (pj_one job) /\ In s (vt_skills vt))
  /\ (forall s, In s (pj_none job) -> ~ In s (vt_skills vt)).
Proof. exact skills_ok_iff. Qed.

(* capacity in every further dimension: nothing is reported iff every tour, projected on each extra dimension, is
   load-feasible for the same independent simulation (per reload interval, Spec.Intervals.ivl_load_feasible; it is
   Spec.Feasible.load_feasible for a tour without reloads) that dimension 0 is checked with *)
Theorem C01_capacity_every_dimension : forall P S,
  dims_feasible_viols P S = [] <->
  forall n t d r, nth_error (sl_tours S) n = Some t -> (d < xdims P)%nat ->
                  rebuild (dim_problem d P) (dim_tour d t) = Some r -> ivl_load_feasible (v_cap (rb_veh r)) (rb_acts r) = true.
Proof. exact dims_feasible_viols_nil. Qed.

(* task order (hard unless a tour-order objective is given): nothing is reported iff along every tour that can be rebuilt the
   order keys (the order value, or "after everything" for a task without order) of the job activities never decrease *)
Theorem C01_task_order_checker_sound_complete : forall P S,
  order_viols P S = [] <->
  forall n t r, nth_error (sl_tours S) n = Some t -> rebuild (order_problem P) t = Some r -> Sorted (order_seq r).
Proof. exact order_viols_nil. Qed.

(* optional breaks, placement: nothing is reported iff every break activity uses a place of a break defined for the tour's
   vehicle shift - the place's duration and the break's time (relative to the tour's departure for an offset break) explain
   the reported interval - at that place's location or, for a place without location, where the previous activity of the
   tour took place.  (The break's time window itself is part of the rebuilt activity list: FInfeasible / `feasible`.) *)
Theorem C01_break_placement_checker_sound_complete : forall P S,
  break_place_viols P S = [] <-> forall t, In t (sl_tours S) -> BreaksPlaced P t.
Proof. exact break_place_viols_nil. Qed.

(* non-vacuity: a tour that takes its location-less offset break at the customer it just served is accepted by the whole
   checker; the same break taken at another location is reported *)
Theorem C01_break_examples :
  valid_b ex_Pb ex_Sb = [] /\ In (FBreakPlace 0 2) (valid_b ex_Pb ex_Sb_bad).
Proof. exact ex_break. Qed.

(* relation pinning (Spec/Relations.v): nothing is reported iff for every relation of the plan
   - vehicle: no tour of another vehicle shift serves one of its jobs, and (sequence / strict) its own tour serves all of them;
   - order (sequence / strict): what its tour serves of its jobs is exactly the listed sequence (a job with several tasks is
     listed once per task);
   - contiguity (strict): the listed sequence is a contiguous block of everything the tour serves (jobs, breaks, reloads);
   - anchoring (strict): with `departure` first the block opens the tour, with `arrival` last it closes it *)
Theorem C01_relation_pinning_checker_sound_complete : forall rels S,
  rel_viols rels S = [] <-> forall r, In r rels -> RelPinned S r.
Proof. exact rel_viols_nil. Qed.

Theorem C01_relation_examples :
  rel_viols [mkPRel 2 1 0%nat [REL_DEPARTURE; 1; REL_ARRIVAL]] ex_S = []
  /\ rel_viols [mkPRel 0 2 0%nat [1]] ex_S = [FRelVehicle 0]
  /\ rel_viols [mkPRel 1 1 0%nat [2; 1]] ex_S = [FRelVehicle 0; FRelOrder 0].
Proof. exact ex_rel. Qed.

(* general routing data (several profiles, profile scale, time-dependent matrices; Spec/ValidTD.v over the provider model of
   C16): the end-to-end checker then evaluates every leg at its departure time (`time_feasible_td`, limits on `tour_dist_td` /
   `replay_duration_td`).  With routing that ignores the departure it IS `Feasible.time_feasible` / the distance and duration the
   limits are checked with above; without such data the plugins evaluate Valid.feasible_viols itself *)
Theorem C01_td_time_feasible_conservative : forall (dur : Z -> Z -> Z) (t : list act),
  time_feasible_td (cst dur) t = time_feasible dur t.
Proof. exact time_feasible_td_const. Qed.

Theorem C01_td_limits_conservative : forall (dur dist : Z -> Z -> Z) (t : list act),
  tour_dist_td (cst dur) (cst dist) t = tour_legs dist t /\ replay_duration_td (cst dur) t = replay_duration dur t.
Proof. exact (fun dur dist t => conj (tour_dist_td_const dur dist t) (replay_duration_td_const dur t)). Qed.

Theorem C01_no_general_routing_is_feasible_viols : forall P S, feasible_viols_x None P S = feasible_viols P S.
Proof. exact feasible_viols_x_none. Qed.

(* finding C01-F5, witness: with a travel time that grows with the departure time, moving the departure by the slack of the current
   schedule (try_advance_departure_time assumes arrivals move 1:1 with the departure) makes the tour miss the window *)
Theorem C01_departure_shift_time_dependent_refuted :
  time_feasible_td ex_dur_f5 (ex_tour_f5 50) = true
  /\ 50 + ex_dur_f5 0 1 50 = 87 /\ 87 + 28 = 115
  /\ 78 + ex_dur_f5 0 1 78 = 133
  /\ time_feasible_td ex_dur_f5 (ex_tour_f5 78) = false.
Proof. exact ex_departure_shift_td. Qed.

(* reachability, step level: an insertion that passed the gate of ReachableConstraint (prev -> target, target -> next) keeps
   every leg reachable ... *)
Theorem C01_reachable_insertion_sound : forall err t idx a,
  tour_reachable err t = true -> reach_gate err t idx a = true -> tour_reachable err (insert_after t idx a) = true.
Proof. exact reach_insertion_sound. Qed.

(* ... but a removal is not gated: the full statement "every search step keeps every leg reachable" is refuted by the
   removal step (finding C01-F4: 0 -> 2 -> 1 -> 0 with only 2 -> 0 unreachable; removing the job at 1 leaves 0 -> 2 -> 0) *)
Theorem C01_removal_unreachable_refuted :
  exists (err : Z -> Z -> Z) t idx,
    tour_reachable err t = true /\ (0 < idx < length t)%nat /\ tour_reachable err (remove_at t idx) = false.
Proof. exact removal_unreachable_refuted. Qed.

(* ---------------------------------------------------------------------------------------------------------------------------
   Capacity PER RELOAD INTERVAL (Spec/Intervals.v): static deliveries of an interval are on board from its start, static
   pickups until its end, shipments (dynamic demand) are carried across the reload. *)

(* the executable per-interval checker is sound and complete for the declarative statement: in every interval, starting with
   what is carried over plus the interval's static deliveries, the load after every prefix of the interval is within capacity *)
Theorem C01_interval_capacity_checker_sound_complete : forall cap carry iv,
  ivl_feasible cap carry iv = true <-> IvlOk cap carry iv.
Proof. exact (fun cap carry iv => ivl_feasible_iff cap iv carry). Qed.

(* without reload activities it IS the simulation the step theorems above are about: `feasible_x` (what the end-to-end checker
   evaluates, Valid.feasible_viol) = `Spec.Feasible.feasible`, so C01_accepted_insertion_feasible etc. keep their meaning *)
Theorem C01_single_interval_is_feasible : forall dur v t,
  forallb (fun a => negb (is_reload a)) t = true -> feasible_x dur v t = feasible dur v t.
Proof. exact feasible_x_single. Qed.

(* non-vacuity / witness: capacity 2, two trips of two static deliveries are fine per interval (and would not be as one
   interval); a shipment picked up in the first trip and delivered in the second overloads the second trip (3 on board when
   leaving the reload place) - the situation of seeded mutant C01-1 *)
Theorem C01_interval_capacity_examples :
  ivl_load_feasible 2 ex_two_trips = true /\ load_feasible 2 ex_two_trips = false
  /\ ivl_load_feasible 2 ex_carry = false /\ ivl_loads_of ex_carry = [1; 0; 1; 3; 2; 1; 0; 0].
Proof. split; [apply ex_two_trips_ok|]. split; [apply ex_two_trips_ok|]. exact ex_carry_overloaded. Qed.
