(* C20 — Insertion cost estimates equal true objective changes for additive objectives. *)
From VRP Require Import Base.Tac Model.Core Spec.Feasible Model.Eval Model.Objectives Model.ObjectivesX Proofs.CoreTimeP Proofs.ObjectivesP Proofs.ObjectivesXP.

(* total travelled distance (any time-independent matrix, any position, open or closed, empty or not):
   quote of estimate_leg = distance of the tour after the insertion - distance it contributed before *)
Theorem C20_distance_quote_exact : forall dist t idx x,
  (idx < length t)%nat ->
  (has_jobs t = false -> (length t <= 2)%nat /\ idx = 0%nat) ->
  total_distance dist (insert_after t idx x) - route_distance dist t = leg_estimate dist t idx x.
Proof. intros. unfold route_distance. apply leg_estimate_exact; assumption. Qed.

(* combined cost objective: equality holds when the tour has no waiting before and after and the time rates are uniform *)
Theorem C20_cost_quote_exact_nowait : forall dur dist v t idx x,
  (idx < length t)%nat ->
  sched_ok dur t -> no_wait t -> no_wait (reschedule dur (insert_after t idx x)) ->
  v_ptime v = v_psvc v -> v_psvc v = v_pwait v ->
  (has_jobs t = false -> (length t <= 2)%nat /\ idx = 0%nat) ->
  cost_fitness dist v (reschedule dur (insert_after t idx x)) - route_cost dist v t = cost_quote dur dist v t idx x.
Proof. exact cost_quote_exact_nowait. Qed.

(* number of unassigned jobs, measured when the recreate step hands the solution over (pending jobs become unassigned) *)
Theorem C20_unassigned_quote_exact : forall s route j,
  NoDup (so_required s) -> In j (so_required s) -> ~ In j (so_unassigned s) ->
  (so_routes s <> [] \/ so_ignored s = []) ->
  fit_unassigned (finalize (apply_ins s route j)) - fit_unassigned (finalize s) = quote_unassigned.
Proof. exact unassigned_quote_exact. Qed.
(* without the last hypothesis the statement is false of the faithful model (finding C20-F1) *)
Theorem C20_unassigned_quote_refuted_ignored :
  exists s route j, NoDup (so_required s) /\ In j (so_required s) /\ ~ In j (so_unassigned s) /\
    fit_unassigned (finalize (apply_ins s route j)) - fit_unassigned (finalize s) <> quote_unassigned.
Proof. exact unassigned_quote_refuted_ignored. Qed.

Theorem C20_tours_quote_exact : forall s route j,
  (forall k, route = Some k -> (k < length (so_routes s))%nat) ->
  fit_tours (apply_ins s route j) - fit_tours s = quote_tours route.
Proof. exact tours_quote_exact. Qed.

(* multi-activity (pickup-and-delivery) jobs: the quote is the sum of the per-activity quotes on the shadow tours, and it
   equals the change of the tour's distance once all activities are inserted (the real eval_multi result's cost is compared
   with this sum on every run of `./check C06`) *)
Theorem C20_multi_distance_quote_exact : forall dur dist steps t,
  steps <> [] -> steps_ok dur t steps ->
  (has_jobs t = false -> (length t <= 2)%nat /\ fst (hd (0%nat, mkAct 0 0 0 0 0 dzero 0 0) steps) = 0%nat) ->
  total_distance dist (apply_steps dur t steps) - route_distance dist t = multi_leg dur dist t steps.
Proof. intros. unfold route_distance. apply multi_leg_exact; assumption. Qed.

(* the same for the combined cost objective: route-level quote once + activity-level quotes on the shadow tours, when neither the tour
   before, nor any shadow tour, nor the final tour has waiting and the time rates are uniform *)
Theorem C20_multi_cost_quote_exact_nowait : forall dur dist v,
  v_ptime v = v_psvc v -> v_psvc v = v_pwait v -> forall steps t,
  steps <> [] -> steps_ok dur t steps -> sched_ok dur t -> shadow_no_wait dur t steps ->
  (has_jobs t = false -> (length t <= 2)%nat /\ fst (hd (0%nat, mkAct 0 0 0 0 0 dzero 0 0) steps) = 0%nat) ->
  cost_fitness dist v (apply_steps dur t steps) - route_cost dist v t
  = cost_estimate_route v t + multi_cost_sum dur dist v t steps.
Proof. exact multi_cost_exact_nowait. Qed.

Theorem C20_value_quote_exact : forall value s route j,
  (forall k, route = Some k -> (k < length (so_routes s))%nat) ->
  fit_value value (apply_ins s route j) - fit_value value s = quote_value value j.
Proof. exact value_quote_exact. Qed.

(* ---------- widened: driver costs, alternative places / windows, the search of eval_single / eval_multi ---------- *)

(* combined cost objective of an actor = vehicle costs + DRIVER costs (get_total_cost adds both parts; estimate_route quotes both fixed
   costs, TransportCost::cost / ActivityCost::cost add the rates): quote = realised change when each of the two has uniform time rates
   and the tour has no waiting before and after *)
Theorem C20_cost_quote_exact_nowait_driver : forall dur dist v d t idx x,
  (idx < length t)%nat ->
  sched_ok dur t -> no_wait t -> no_wait (reschedule dur (insert_after t idx x)) ->
  v_ptime v = v_psvc v -> v_psvc v = v_pwait v ->
  dc_ptime d = dc_psvc d -> dc_psvc d = dc_pwait d ->
  (has_jobs t = false -> (length t <= 2)%nat /\ idx = 0%nat) ->
  cost_fitness_d dist v d (reschedule dur (insert_after t idx x)) - route_cost_d dist v d t
  = cost_estimate_route_d v d t + cost_estimate_activity_d dur dist v d t idx x.
Proof. intros. apply cost_quote_exact_nowait_driver; unfold uniform_v, uniform_d; auto. Qed.

(* the fixed costs (vehicle + driver) are part of the quote exactly when the insertion opens a new tour, and then they are the
   fixed part of the objective value of that tour *)
Theorem C20_fixed_cost_quoted_iff_new_tour : forall dur dist v d t idx x,
  (idx < length t)%nat ->
  sched_ok dur t -> no_wait t -> no_wait (reschedule dur (insert_after t idx x)) ->
  v_ptime v = v_psvc v -> v_psvc v = v_pwait v ->
  dc_ptime d = dc_psvc d -> dc_psvc d = dc_pwait d ->
  (has_jobs t = false -> (length t <= 2)%nat /\ idx = 0%nat) ->
  (has_jobs t = false ->
     cost_fitness_d dist v d (reschedule dur (insert_after t idx x)) = (dc_fixed d + v_fixed v) + cost_estimate_activity_d dur dist v d t idx x) /\
  (has_jobs t = true ->
     cost_fitness_d dist v d (reschedule dur (insert_after t idx x)) - cost_fitness_d dist v d t = cost_estimate_activity_d dur dist v d t idx x).
Proof.
  intros dur dist v d t idx x H1 H2 H3 H4 H5 H6 H7 H8 H9.
  pose proof (C20_cost_quote_exact_nowait_driver dur dist v d t idx x H1 H2 H3 H4 H5 H6 H7 H8 H9) as H.
  unfold route_cost_d, cost_estimate_route_d in H. split; intros Hj; rewrite Hj in H; lia.
Qed.

(* multi-activity jobs with driver costs: route-level quote once + the activity-level quotes on the shadow tours *)
Theorem C20_multi_cost_quote_exact_nowait_driver : forall dur dist v d steps t,
  v_ptime v = v_psvc v -> v_psvc v = v_pwait v ->
  dc_ptime d = dc_psvc d -> dc_psvc d = dc_pwait d ->
  steps <> [] -> steps_ok dur t steps -> sched_ok dur t -> shadow_no_wait dur t steps ->
  (has_jobs t = false -> (length t <= 2)%nat /\ fst (hd (0%nat, mkAct 0 0 0 0 0 dzero 0 0) steps) = 0%nat) ->
  cost_fitness_d dist v d (apply_steps dur t steps) - route_cost_d dist v d t
  = cost_estimate_route_d v d t + multi_sum dur (cost_estimate_activity_d dur dist v d) t steps.
Proof. intros. apply multi_cost_exact_nowait_driver; unfold uniform_v, uniform_d; auto. Qed.

(* the modelled search (eval_job_insertion_in_route -> eval_single / eval_multi, every place x window of every sub-job on every leg of
   the shadow tours, MultiContext::promote over the start indices and over the allowed permutations of the sub-jobs): a success carries,
   for every sub-job in one of the allowed orders, an insertion index
   on the then-current shadow tour and an activity that (1) is one of the declared places / windows of that sub-job, (2) passes the
   constraint evaluation there, and the quoted cost is the route-level estimate plus the sum of the activity-level estimates of exactly
   these activities: the quote belongs to what is inserted *)
Theorem C20_search_quote_belongs_to_inserted_activities : forall w d t j kind cost steps,
  eval_jobx w d t j kind = GSuccess cost steps ->
  (exists sv, In sv (jobx_perms j) /\ steps_valid (wdur w) (jobx_ev w j) (closed w) t sv steps) /\
  cost = jobx_rc w d t kind + multi_sum (wdur w) (jobx_est w d kind) t (map step_of steps).
Proof. exact eval_jobx_spec. Qed.

(* the loop of eval_multi over the start indices terminates within |tour| + 2 rounds (for every permutation) *)
Theorem C20_search_terminates : forall w d t j kind, eval_jobx w d t j kind <> GOutOfFuel.
Proof. exact eval_jobx_terminates. Qed.

(* distance layer: the quote the search returns = the realised change of the tour's distance after inserting the returned activities *)
Theorem C20_search_distance_quote_exact : forall w d t j cost steps,
  jobx_ok j ->
  (has_jobs t = false -> (length t <= 2)%nat /\ leg_count (closed w) t = 1%nat) ->
  eval_jobx w d t j 1 = GSuccess cost steps ->
  total_distance (wdist w) (apply_steps (wdur w) t (map step_of steps)) - route_distance (wdist w) t = cost.
Proof. exact eval_jobx_distance_exact. Qed.

(* cost layer (vehicle + driver): the same under uniform time rates of both and no waiting in any shadow tour *)
Theorem C20_search_cost_quote_exact_nowait : forall w d t j cost steps,
  jobx_ok j ->
  (has_jobs t = false -> (length t <= 2)%nat /\ leg_count (closed w) t = 1%nat) ->
  sched_ok (wdur w) t ->
  v_ptime (w_veh w) = v_psvc (w_veh w) -> v_psvc (w_veh w) = v_pwait (w_veh w) ->
  dc_ptime d = dc_psvc d -> dc_psvc d = dc_pwait d ->
  eval_jobx w d t j 0 = GSuccess cost steps ->
  shadow_no_wait (wdur w) t (map step_of steps) ->
  cost_fitness_d (wdist w) (w_veh w) d (apply_steps (wdur w) t (map step_of steps)) - route_cost_d (wdist w) (w_veh w) d t = cost.
Proof. intros. apply (eval_jobx_cost_exact_nowait w d t j cost steps); unfold uniform_v, uniform_d; auto. Qed.

(* non-vacuity: (i) a pickup-and-delivery job whose delivery has two alternative places, the first being the cheaper one, inserted into
   a used tour (distance layer: quote 20, the activity carries place 0); (ii) the first insertion into an unused tour of an actor whose
   driver has a fixed cost of 40 next to the vehicle's 100 (cost layer: quote 140 + 80 + 120 = 340); all hypotheses hold *)
Definition nv_mat : list Z := [0; 10; 20; 60; 10; 0; 10; 50; 20; 10; 0; 40; 60; 50; 40; 0].
Definition nv_world : world := mkWorld 4 nv_mat nv_mat (mkVeh INF 10 100 1 2 2 2) 0 (Some 0) 0.
Definition nv_pl (l : Z) : place := mkPlace (Some l) 0 [(0, INF)].

Theorem C20_nonvacuous_search_multi_alternative_places :
  let w := nv_world in let d := mkDC 0 0 0 0 0 in
  let t := build_tour w [(1, 1, 0, 0, INF, mkDemand 0 0 1 0)] in
  let j := JMulti [mkSingle 951 [nv_pl 1] (mkDemand 0 2 0 0); mkSingle 952 [nv_pl 2; nv_pl 3] (mkDemand 0 0 0 2)] [[0%nat; 1%nat]] in
  jobx_ok j /\ (has_jobs t = false -> (length t <= 2)%nat /\ leg_count (closed w) t = 1%nat) /\
  exists steps, eval_jobx w d t j 1 = GSuccess 20 steps /\ map (fun s => snd (fst s)) steps = [0%nat; 0%nat].
Proof.
  cbv zeta. split; [repeat constructor; discriminate|]. split; [intros H; vm_compute in H; discriminate|].
  eexists. split; vm_compute; reflexivity.
Qed.

Theorem C20_nonvacuous_search_new_tour_driver_fixed_cost :
  let w := nv_world in let d := mkDC 40 1 1 1 1 in
  let t := build_tour w [] in
  let j := JSingle (mkSingle 90 [nv_pl 2] (mkDemand 0 0 1 0)) in
  jobx_ok j /\ (has_jobs t = false -> (length t <= 2)%nat /\ leg_count (closed w) t = 1%nat) /\ sched_ok (wdur w) t /\
  v_ptime (w_veh w) = v_psvc (w_veh w) /\ v_psvc (w_veh w) = v_pwait (w_veh w) /\ dc_ptime d = dc_psvc d /\ dc_psvc d = dc_pwait d /\
  exists steps, eval_jobx w d t j 0 = GSuccess 340 steps /\ shadow_no_wait (wdur w) t (map step_of steps).
Proof.
  cbv zeta. split; [repeat constructor; discriminate|]. split; [intros _; split; [vm_compute; lia|vm_compute; reflexivity]|].
  split; [vm_compute; auto|]. repeat (split; [reflexivity|]).
  eexists. split; [vm_compute; reflexivity|]. vm_compute. split; repeat constructor; discriminate.
Qed.
