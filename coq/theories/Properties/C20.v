(* C20 — Insertion cost estimates equal true objective changes for additive objectives. *)
From VRP Require Import Base.Tac Model.Core Model.Objectives Proofs.CoreTimeP Proofs.ObjectivesP.

(* total travelled distance (any time-independent matrix, any position, open or closed, empty or not):
   quote of estimate_leg = distance of the tour after the insertion - distance it contributed before *)
Theorem C20_distance_quote_exact : forall dist t idx x,
  (idx < length t)%nat ->
  (has_jobs t = false -> (length t <= 2)%nat /\ idx = 0%nat) ->
  total_distance dist (insert_after t idx x) - route_distance dist t = leg_estimate dist t idx x.
Proof. intros. unfold route_distance. apply leg_estimate_exact; assumption. Qed.

(* combined cost objective: equality holds when the tour has no waiting before and after and the time rates are uniform *)
Theorem C20_cost_quote_exact_nowait : forall dur dist v t idx x,
  (idx < length t)%nat ->
  sched_ok dur t -> no_wait t -> no_wait (reschedule dur (insert_after t idx x)) ->
  v_ptime v = v_psvc v -> v_psvc v = v_pwait v ->
  (has_jobs t = false -> (length t <= 2)%nat /\ idx = 0%nat) ->
  cost_fitness dist v (reschedule dur (insert_after t idx x)) - route_cost dist v t = cost_quote dur dist v t idx x.
Proof. exact cost_quote_exact_nowait. Qed.

(* number of unassigned jobs, measured when the recreate step hands the solution over (pending jobs become unassigned) *)
Theorem C20_unassigned_quote_exact : forall s route j,
  NoDup (so_required s) -> In j (so_required s) -> ~ In j (so_unassigned s) ->
  (so_routes s <> [] \/ so_ignored s = []) ->
  fit_unassigned (finalize (apply_ins s route j)) - fit_unassigned (finalize s) = quote_unassigned.
Proof. exact unassigned_quote_exact. Qed.
(* without the last hypothesis the statement is false of the faithful model (finding C20-F1) *)
Theorem C20_unassigned_quote_refuted_ignored :
  exists s route j, NoDup (so_required s) /\ In j (so_required s) /\ ~ In j (so_unassigned s) /\
    fit_unassigned (finalize (apply_ins s route j)) - fit_unassigned (finalize s) <> quote_unassigned.
Proof. exact unassigned_quote_refuted_ignored. Qed.

Theorem C20_tours_quote_exact : forall s route j,
  (forall k, route = Some k -> (k < length (so_routes s))%nat) ->
  fit_tours (apply_ins s route j) - fit_tours s = quote_tours route.
Proof. exact tours_quote_exact. Qed.

(* multi-activity (pickup-and-delivery) jobs: the quote is the sum of the per-activity quotes on the shadow tours, and it
   equals the change of the tour's distance once all activities are inserted (the real eval_multi result's cost is compared
   with this sum on every run of `./check C06`) *)
Theorem C20_multi_distance_quote_exact : forall dur dist steps t,
  steps <> [] -> steps_ok dur t steps ->
  (has_jobs t = false -> (length t <= 2)%nat /\ fst (hd (0%nat, mkAct 0 0 0 0 0 dzero 0 0) steps) = 0%nat) ->
  total_distance dist (apply_steps dur t steps) - route_distance dist t = multi_leg dur dist t steps.
Proof. intros. unfold route_distance. apply multi_leg_exact; assumption. Qed.

(* the same for the combined cost objective: route-level quote once + activity-level quotes on the shadow tours, when neither the tour
   before, nor any shadow tour, nor the final tour has waiting and the time rates are uniform *)
Theorem C20_multi_cost_quote_exact_nowait : forall dur dist v,
  v_ptime v = v_psvc v -> v_psvc v = v_pwait v -> forall steps t,
  steps <> [] -> steps_ok dur t steps -> sched_ok dur t -> shadow_no_wait dur t steps ->
  (has_jobs t = false -> (length t <= 2)%nat /\ fst (hd (0%nat, mkAct 0 0 0 0 0 dzero 0 0) steps) = 0%nat) ->
  cost_fitness dist v (apply_steps dur t steps) - route_cost dist v t
  = cost_estimate_route v t + multi_cost_sum dur dist v t steps.
Proof. exact multi_cost_exact_nowait. Qed.

Theorem C20_value_quote_exact : forall value s route j,
  (forall k, route = Some k -> (k < length (so_routes s))%nat) ->
  fit_value value (apply_ins s route j) - fit_value value s = quote_value value j.
Proof. exact value_quote_exact. Qed.
