(* C20 — Insertion cost estimates equal true objective changes for additive objectives. *)
From VRP Require Import Base.Tac Model.CostOrder Model.Reduce Model.Core Spec.Feasible Model.Eval Model.Objectives Model.ObjectivesX Model.Reduce2 Model.GoalSel
  Proofs.CoreTimeP Proofs.ObjectivesP Proofs.ObjectivesXP Proofs.Reduce2P Proofs.GoalSelP.
From VRP Require Model.Routing Model.GoalSelTD Proofs.GoalSelTDP.

(* total travelled distance (any time-independent matrix, any position, open or closed, empty or not):
   quote of estimate_leg = distance of the tour after the insertion - distance it contributed before *)
Theorem C20_distance_quote_exact : forall dist t idx x,
  (idx < length t)%nat ->
  (has_jobs t = false -> (length t <= 2)%nat /\ idx = 0%nat) ->
  total_distance dist (insert_after t idx x) - route_distance dist t = leg_estimate dist t idx x.
Proof. intros. unfold route_distance. apply leg_estimate_exact; assumption. Qed.

(* combined cost objective: equality holds when the tour has no waiting before and after and the time rates are uniform *)
Theorem C20_cost_quote_exact_nowait : forall dur dist v t idx x,
  (idx < length t)%nat ->
  sched_ok dur t -> no_wait t -> no_wait (reschedule dur (insert_after t idx x)) ->
  v_ptime v = v_psvc v -> v_psvc v = v_pwait v ->
  (has_jobs t = false -> (length t <= 2)%nat /\ idx = 0%nat) ->
  cost_fitness dist v (reschedule dur (insert_after t idx x)) - route_cost dist v t = cost_quote dur dist v t idx x.
Proof. exact cost_quote_exact_nowait. Qed.

(* number of unassigned jobs, measured when the recreate step hands the solution over (pending jobs become unassigned) *)
Theorem C20_unassigned_quote_exact : forall s route j,
  NoDup (so_required s) -> In j (so_required s) -> ~ In j (so_unassigned s) ->
  (so_routes s <> [] \/ so_ignored s = []) ->
  fit_unassigned (finalize (apply_ins s route j)) - fit_unassigned (finalize s) = quote_unassigned.
Proof. exact unassigned_quote_exact. Qed.
(* without the last hypothesis the statement is false of the faithful model (finding C20-F1) *)
Theorem C20_unassigned_quote_refuted_ignored :
  exists s route j, NoDup (so_required s) /\ In j (so_required s) /\ ~ In j (so_unassigned s) /\
    fit_unassigned (finalize (apply_ins s route j)) - fit_unassigned (finalize s) <> quote_unassigned.
Proof. exact unassigned_quote_refuted_ignored. Qed.

Theorem C20_tours_quote_exact : forall s route j,
  (forall k, route = Some k -> (k < length (so_routes s))%nat) ->
  fit_tours (apply_ins s route j) - fit_tours s = quote_tours route.
Proof. exact tours_quote_exact. Qed.

(* multi-activity (pickup-and-delivery) jobs: the quote is the sum of the per-activity quotes on the shadow tours, and it
   equals the change of the tour's distance once all activities are inserted (the real eval_multi result's cost is compared
   with this sum on every run of `./check C06`) *)
Theorem C20_multi_distance_quote_exact : forall dur dist steps t,
  steps <> [] -> steps_ok dur t steps ->
  (has_jobs t = false -> (length t <= 2)%nat /\ fst (hd (0%nat, mkAct 0 0 0 0 0 dzero 0 0) steps) = 0%nat) ->
  total_distance dist (apply_steps dur t steps) - route_distance dist t = multi_leg dur dist t steps.
Proof. intros. unfold route_distance. apply multi_leg_exact; assumption. Qed.

(* the same for the combined cost objective: route-level quote once + activity-level quotes on the shadow tours, when neither the tour
   before, nor any shadow tour, nor the final tour has waiting and the time rates are uniform *)
Theorem C20_multi_cost_quote_exact_nowait : forall dur dist v,
  v_ptime v = v_psvc v -> v_psvc v = v_pwait v -> forall steps t,
  steps <> [] -> steps_ok dur t steps -> sched_ok dur t -> shadow_no_wait dur t steps ->
  (has_jobs t = false -> (length t <= 2)%nat /\ fst (hd (0%nat, mkAct 0 0 0 0 0 dzero 0 0) steps) = 0%nat) ->
  cost_fitness dist v (apply_steps dur t steps) - route_cost dist v t
  = cost_estimate_route v t + multi_cost_sum dur dist v t steps.
Proof. exact multi_cost_exact_nowait. Qed.

Theorem C20_value_quote_exact : forall value s route j,
  (forall k, route = Some k -> (k < length (so_routes s))%nat) ->
  fit_value value (apply_ins s route j) - fit_value value s = quote_value value j.
Proof. exact value_quote_exact. Qed.

(* ---------- widened: driver costs, alternative places / windows, the search of eval_single / eval_multi ---------- *)

(* combined cost objective of an actor = vehicle costs + DRIVER costs (get_total_cost adds both parts; estimate_route quotes both fixed
   costs, TransportCost::cost / ActivityCost::cost add the rates): quote = realised change when each of the two has uniform time rates
   and the tour has no waiting before and after *)
Theorem C20_cost_quote_exact_nowait_driver : forall dur dist v d t idx x,
  (idx < length t)%nat ->
  sched_ok dur t -> no_wait t -> no_wait (reschedule dur (insert_after t idx x)) ->
  v_ptime v = v_psvc v -> v_psvc v = v_pwait v ->
  dc_ptime d = dc_psvc d -> dc_psvc d = dc_pwait d ->
  (has_jobs t = false -> (length t <= 2)%nat /\ idx = 0%nat) ->
  cost_fitness_d dist v d (reschedule dur (insert_after t idx x)) - route_cost_d dist v d t
  = cost_estimate_route_d v d t + cost_estimate_activity_d dur dist v d t idx x.
Proof. intros. apply cost_quote_exact_nowait_driver; unfold uniform_v, uniform_d; auto. Qed.

(* the fixed costs (vehicle + driver) are part of the quote exactly when the insertion opens a new tour, and then they are the
   fixed part of the objective value of that tour *)
Theorem C20_fixed_cost_quoted_iff_new_tour : forall dur dist v d t idx x,
  (idx < length t)%nat ->
  sched_ok dur t -> no_wait t -> no_wait (reschedule dur (insert_after t idx x)) ->
  v_ptime v = v_psvc v -> v_psvc v = v_pwait v ->
  dc_ptime d = dc_psvc d -> dc_psvc d = dc_pwait d ->
  (has_jobs t = false -> (length t <= 2)%nat /\ idx = 0%nat) ->
  (has_jobs t = false ->
     cost_fitness_d dist v d (reschedule dur (insert_after t idx x)) = (dc_fixed d + v_fixed v) + cost_estimate_activity_d dur dist v d t idx x) /\
  (has_jobs t = true ->
     cost_fitness_d dist v d (reschedule dur (insert_after t idx x)) - cost_fitness_d dist v d t = cost_estimate_activity_d dur dist v d t idx x).
Proof.
  intros dur dist v d t idx x H1 H2 H3 H4 H5 H6 H7 H8 H9.
  pose proof (C20_cost_quote_exact_nowait_driver dur dist v d t idx x H1 H2 H3 H4 H5 H6 H7 H8 H9) as H.
  unfold route_cost_d, cost_estimate_route_d in H. split; intros Hj; rewrite Hj in H; lia.
Qed.

(* multi-activity jobs with driver costs: route-level quote once + the activity-level quotes on the shadow tours *)
Theorem C20_multi_cost_quote_exact_nowait_driver : forall dur dist v d steps t,
  v_ptime v = v_psvc v -> v_psvc v = v_pwait v ->
  dc_ptime d = dc_psvc d -> dc_psvc d = dc_pwait d ->
  steps <> [] -> steps_ok dur t steps -> sched_ok dur t -> shadow_no_wait dur t steps ->
  (has_jobs t = false -> (length t <= 2)%nat /\ fst (hd (0%nat, mkAct 0 0 0 0 0 dzero 0 0) steps) = 0%nat) ->
  cost_fitness_d dist v d (apply_steps dur t steps) - route_cost_d dist v d t
  = cost_estimate_route_d v d t + multi_sum dur (cost_estimate_activity_d dur dist v d) t steps.
Proof. intros. apply multi_cost_exact_nowait_driver; unfold uniform_v, uniform_d; auto. Qed.

(* the modelled search (eval_job_insertion_in_route -> eval_single / eval_multi, every place x window of every sub-job on every leg of
   the shadow tours, MultiContext::promote over the start indices and over the allowed permutations of the sub-jobs): a success carries,
   for every sub-job in one of the allowed orders, an insertion index
   on the then-current shadow tour and an activity that (1) is one of the declared places / windows of that sub-job, (2) passes the
   constraint evaluation there, and the quoted cost is the route-level estimate plus the sum of the activity-level estimates of exactly
   these activities: the quote belongs to what is inserted *)
Theorem C20_search_quote_belongs_to_inserted_activities : forall w d t j kind cost steps,
  eval_jobx w d t j kind = GSuccess cost steps ->
  (exists sv, In sv (jobx_perms j) /\ steps_valid (wdur w) (jobx_ev w j) (closed w) t sv steps) /\
  cost = jobx_rc w d t kind + multi_sum (wdur w) (jobx_est w d kind) t (map step_of steps).
Proof. exact eval_jobx_spec. Qed.

(* the loop of eval_multi over the start indices terminates within |tour| + 2 rounds (for every permutation) *)
Theorem C20_search_terminates : forall w d t j kind, eval_jobx w d t j kind <> GOutOfFuel.
Proof. exact eval_jobx_terminates. Qed.

(* distance layer: the quote the search returns = the realised change of the tour's distance after inserting the returned activities *)
Theorem C20_search_distance_quote_exact : forall w d t j cost steps,
  jobx_ok j ->
  (has_jobs t = false -> (length t <= 2)%nat /\ leg_count (closed w) t = 1%nat) ->
  eval_jobx w d t j 1 = GSuccess cost steps ->
  total_distance (wdist w) (apply_steps (wdur w) t (map step_of steps)) - route_distance (wdist w) t = cost.
Proof. exact eval_jobx_distance_exact. Qed.

(* cost layer (vehicle + driver): the same under uniform time rates of both and no waiting in any shadow tour *)
Theorem C20_search_cost_quote_exact_nowait : forall w d t j cost steps,
  jobx_ok j ->
  (has_jobs t = false -> (length t <= 2)%nat /\ leg_count (closed w) t = 1%nat) ->
  sched_ok (wdur w) t ->
  v_ptime (w_veh w) = v_psvc (w_veh w) -> v_psvc (w_veh w) = v_pwait (w_veh w) ->
  dc_ptime d = dc_psvc d -> dc_psvc d = dc_pwait d ->
  eval_jobx w d t j 0 = GSuccess cost steps ->
  shadow_no_wait (wdur w) t (map step_of steps) ->
  cost_fitness_d (wdist w) (w_veh w) d (apply_steps (wdur w) t (map step_of steps)) - route_cost_d (wdist w) (w_veh w) d t = cost.
Proof. intros. apply (eval_jobx_cost_exact_nowait w d t j cost steps); unfold uniform_v, uniform_d; auto. Qed.

(* non-vacuity: (i) a pickup-and-delivery job whose delivery has two alternative places, the first being the cheaper one, inserted into
   a used tour (distance layer: quote 20, the activity carries place 0); (ii) the first insertion into an unused tour of an actor whose
   driver has a fixed cost of 40 next to the vehicle's 100 (cost layer: quote 140 + 80 + 120 = 340); all hypotheses hold *)
Definition nv_mat : list Z := [0; 10; 20; 60; 10; 0; 10; 50; 20; 10; 0; 40; 60; 50; 40; 0].
Definition nv_world : world := mkWorld 4 nv_mat nv_mat (mkVeh INF 10 100 1 2 2 2) 0 (Some 0) 0.
Definition nv_pl (l : Z) : place := mkPlace (Some l) 0 [(0, INF)].

Theorem C20_nonvacuous_search_multi_alternative_places :
  let w := nv_world in let d := mkDC 0 0 0 0 0 in
  let t := build_tour w [(1, 1, 0, 0, INF, mkDemand 0 0 1 0)] in
  let j := JMulti [mkSingle 951 [nv_pl 1] (mkDemand 0 2 0 0); mkSingle 952 [nv_pl 2; nv_pl 3] (mkDemand 0 0 0 2)] [[0%nat; 1%nat]] in
  jobx_ok j /\ (has_jobs t = false -> (length t <= 2)%nat /\ leg_count (closed w) t = 1%nat) /\
  exists steps, eval_jobx w d t j 1 = GSuccess 20 steps /\ map (fun s => snd (fst s)) steps = [0%nat; 0%nat].
Proof.
  cbv zeta. split; [repeat constructor; discriminate|]. split; [intros H; vm_compute in H; discriminate|].
  eexists. split; vm_compute; reflexivity.
Qed.

Theorem C20_nonvacuous_search_new_tour_driver_fixed_cost :
  let w := nv_world in let d := mkDC 40 1 1 1 1 in
  let t := build_tour w [] in
  let j := JSingle (mkSingle 90 [nv_pl 2] (mkDemand 0 0 1 0)) in
  jobx_ok j /\ (has_jobs t = false -> (length t <= 2)%nat /\ leg_count (closed w) t = 1%nat) /\ sched_ok (wdur w) t /\
  v_ptime (w_veh w) = v_psvc (w_veh w) /\ v_psvc (w_veh w) = v_pwait (w_veh w) /\ dc_ptime d = dc_psvc d /\ dc_psvc d = dc_pwait d /\
  exists steps, eval_jobx w d t j 0 = GSuccess 340 steps /\ shadow_no_wait (wdur w) t (map step_of steps).
Proof.
  cbv zeta. split; [repeat constructor; discriminate|]. split; [intros _; split; [vm_compute; lia|vm_compute; reflexivity]|].
  split; [vm_compute; auto|]. repeat (split; [reflexivity|]).
  eexists. split; [vm_compute; reflexivity|]. vm_compute. split; repeat constructor; discriminate.
Qed.

(* ====================================================================================================================================
   GOAL LEVEL (Model/GoalSel.v, sub-stream c20_sel): every additive-looking objective feature, the InsertionCost vector per layer order,
   the exhaustive evaluator over routes x jobs with vector costs, and the CONSEQUENCE clause "so the cheapest quoted insertion really is
   the cheapest".
   ==================================================================================================================================== *)

(* "the cost the evaluator quotes equals the actual change of that objective's value", for the whole goal at once: for every goal whose
   layers are single objectives, Sum groups or WeightedSum groups of
     - minimize-unassigned with ANY unassigned-job estimator (default 1, the pragmatic cluster-size / break-value weights, ...),
     - minimize tours, maximize tours,
     - maximize value with any job-only or actor-dependent read function,
     - distance (any matrix),
     - cost (vehicle + driver rates, per-vehicle rates) when this route's tour has no waiting before and after and the time rates are uniform,
   for every state (used routes with jobs, unused registry tours), every offered route k (an unused one is pushed as a new route: fixed
   costs and the tours layer are quoted at route level), every leg idx and every job activity x: the vector of realised changes of the
   layer values (recreate step with the insertion against the one without) IS the quoted vector
   `goal.estimate(activity) + goal.estimate(route)`, component by component in layer order — provided the solution already has a route
   or has no ignored jobs (the complement is finding C20-F1, next theorem) *)
Theorem C20_goal_quote_vector_exact : forall dur dist g s free k jid idx x,
  state_ok s free -> cand_ok s free k jid idx x ->
  goal_ok dur g (nth k (gs_routes s ++ free) dummy_route) idx x ->
  (gs_routes s <> [] \/ gs_ignored s = []) ->
  map (fun l => layer_value dist l (gfinalize (gapply dur s free k jid idx x)) - layer_value dist l (gfinalize s)) g
  = icost_add (goal_est_act dur dist g (nth k (gs_routes s ++ free) dummy_route) idx x)
              (goal_est_route g (nth k (gs_routes s ++ free) dummy_route) jid).
Proof. exact goal_quote_vector_exact. Qed.

Theorem C20_goal_quote_vector_refuted_ignored :
  exists dur dist g s free k jid idx x,
    state_ok s free /\ cand_ok s free k jid idx x /\ goal_ok dur g (nth k (gs_routes s ++ free) dummy_route) idx x /\
    map (fun l => layer_value dist l (gfinalize (gapply dur s free k jid idx x)) - layer_value dist l (gfinalize s)) g
    <> icost_add (goal_est_act dur dist g (nth k (gs_routes s ++ free) dummy_route) idx x)
                 (goal_est_route g (nth k (gs_routes s ++ free) dummy_route) jid).
Proof. exact goal_quote_vector_refuted_ignored. Qed.

(* ... and without that proviso the realised vector is the quoted vector plus a shift that depends on the state only, never on the
   candidate (ignored jobs stop being counted by the unassigned objective once the first route exists): the ORDER of candidates by quote
   is their order by realised change in every state *)
Theorem C20_goal_realised_is_quote_plus_candidate_independent_shift : forall dur dist g s free k jid idx x,
  state_ok s free -> cand_ok s free k jid idx x ->
  goal_ok dur g (nth k (gs_routes s ++ free) dummy_route) idx x ->
  map (fun l => layer_value dist l (gfinalize (gapply dur s free k jid idx x)) - layer_value dist l (gfinalize s)) g
  = icost_add (icost_add (goal_est_act dur dist g (nth k (gs_routes s ++ free) dummy_route) idx x)
                         (goal_est_route g (nth k (gs_routes s ++ free) dummy_route) jid)) (goal_shift g s).
Proof. exact goal_delta. Qed.

(* the scan of analyze_insertion_in_route(_leg) with vector costs, started from nothing: a failure when it enumerates no accepted
   candidate, otherwise the LEFTMOST lexicographic minimum of what it enumerates (every accepted leg x place x window up to the first
   `stopped` verdict) *)
Theorem C20_vector_scan_is_leftmost_minimum : forall dur dist g k r j rc,
  let run := fun known => gresult_of k j (vanalyze (gev_act dur r) (gest_act dur dist g r) (gr_closed r) (gr_tour r) j rc known) in
  let l := venum (gev_act dur r) (gest_act dur dist g r) (gr_closed r) (gr_tour r) j rc in
  (l = [] /\ exists f, run None = RFailure f) \/
  (exists m, In m l /\ run None = RSuccess (vc_vec m, (k, s_id j, vc_idx m, vc_pl m)) /\
             forall e, In e l -> vlt (vc_vec e) (vc_vec m) = false).
Proof. exact grun_none. Qed.

(* ... started from best_known_cost it honours it (the hypothesis `respects_known` of C15's theorems, here for vector costs), and with
   activity-level vectors >= 0 the route-level vector is a lower bound: the pair satisfies C15's cell_ok *)
Theorem C20_pair_satisfies_c15_cell_ok : forall dur dist g skip k r j,
  (forall idx x, vlt (goal_est_act dur dist g r idx x) [] = false) ->
  cell_ok gsucc (list Z) gcost vlt (gcell dur dist g skip k r j).
Proof. exact gcell_ok. Qed.

(* CONSEQUENCE, one (route, job) pair (eval_job_insertion_in_route with alternative = failure), no further hypothesis: the selected
   insertion is one of the enumerated candidates and none of them realises a lexicographically smaller change of the goal's values *)
Theorem C20_pair_selected_is_cheapest : forall dur dist g skip s free jobs k r j cost k0 jid0 idx0 pl0,
  state_ok s free -> jobs_ok s jobs -> In (k, r) (offered s free) -> In j jobs ->
  full_of gsucc (list Z) (gcell dur dist g skip k r j) = RSuccess (cost, (k0, jid0, idx0, pl0)) ->
  In (idx0, pl0, cost) (gcands dur dist g skip r j) /\ k0 = k /\ jid0 = s_id j /\
  forall e, In e (gcands dur dist g skip r j) ->
    goal_ok dur g r (vc_idx e) (act_of_place j (vc_pl e)) -> goal_ok dur g r idx0 (act_of_place j pl0) ->
    vlt (grealised dur dist g s free k j e) (grealised dur dist g s free k j (idx0, pl0, cost)) = false.
Proof. exact pair_selected_minimises_realised. Qed.

(* CONSEQUENCE, the whole grid routes x jobs under EVERY schedule of the parallel fold (PositionInsertionEvaluator::evaluate_all),
   for any goal: it holds up to the prune-by-route-cost shortcut, i.e. under C15's lower-bound hypothesis (activity-level vectors >= 0),
   for the candidates whose layers are claimed exact (goal_ok: for cost layers the no-waiting premise) *)
Theorem C20_grid_selected_is_cheapest : forall dur dist g skip s free jobs tree cost k0 jid0 idx0 pl0,
  state_ok s free -> jobs_ok s jobs ->
  (forall kr, In kr (offered s free) -> act_nonneg dur dist g (snd kr)) ->
  pflatten tree = cartesian_product (offered s free) jobs ->
  gselect dur dist g skip tree = RSuccess (cost, (k0, jid0, idx0, pl0)) ->
  exists r0 j0, In (k0, r0) (offered s free) /\ In j0 jobs /\ s_id j0 = jid0 /\
    In (idx0, pl0, cost) (gcands dur dist g (skip r0 j0) r0 j0) /\
    forall k r j e, In (k, r) (offered s free) -> In j jobs -> In e (gcands dur dist g (skip r j) r j) ->
      goal_ok dur g r (vc_idx e) (act_of_place j (vc_pl e)) -> goal_ok dur g r0 idx0 (act_of_place j0 pl0) ->
      vlt (grealised dur dist g s free k j e) (grealised dur dist g s free k0 j0 (idx0, pl0, cost)) = false.
Proof. exact grid_selected_minimises_realised. Qed.

(* CONSEQUENCE at full strength for the additive objectives the property names (unassigned, tours, value, distance; any layering, Sum /
   WeightedSum groups with non-negative weights) over a non-negative distance matrix with the triangle inequality: over ALL (job, tour,
   position, place, window) combinations the evaluator enumerates, the selected one minimises the realised lexicographic change.
   No hypothesis about ignored jobs is needed (C20-F1 shifts every candidate alike). *)
Theorem C20_additive_selected_is_cheapest : forall dur dist,
  (forall a b, 0 <= dist a b) -> (forall a b c, dist a c <= dist a b + dist b c) ->
  forall g skip s free jobs tree cost k0 jid0 idx0 pl0,
  state_ok s free -> jobs_ok s jobs -> goal_additive g -> weights_nonneg g ->
  pflatten tree = cartesian_product (offered s free) jobs ->
  gselect dur dist g skip tree = RSuccess (cost, (k0, jid0, idx0, pl0)) ->
  exists r0 j0, In (k0, r0) (offered s free) /\ In j0 jobs /\ s_id j0 = jid0 /\
    In (idx0, pl0, cost) (gcands dur dist g (skip r0 j0) r0 j0) /\
    forall k r j e, In (k, r) (offered s free) -> In j jobs -> In e (gcands dur dist g (skip r j) r j) ->
      vlt (grealised dur dist g s free k j e) (grealised dur dist g s free k0 j0 (idx0, pl0, cost)) = false.
Proof. exact additive_selected_is_cheapest. Qed.

(* ... and WITHOUT the triangle inequality it is false of the faithful model: a non-negative matrix, goal [unassigned, tours, distance],
   one route, two jobs; the sequential fold selects quote [-1; 0; -80] although an enumerated candidate of the second job has quote and
   realised change [-1; 0; -98] — the pair was never evaluated because the accumulated cost was already below its route-level vector
   (finding C15-F1; for C20 recorded as C20-F2) *)
Theorem C20_selected_is_cheapest_refuted_under_prune :
  exists dur dist g s free jobs cost k0 j0 idx0 pl0 k r j e,
    (forall a b, 0 <= dist a b) /\ state_ok s free /\ jobs_ok s jobs /\ goal_additive g /\ weights_nonneg g /\
    gselect dur dist g (fun _ _ => false) (PLeaf (cartesian_product (offered s free) jobs)) = RSuccess (cost, (k0, s_id j0, idx0, pl0)) /\
    In j0 jobs /\ In (k, r) (offered s free) /\ In j jobs /\ In e (gcands dur dist g false r j) /\
    vlt (grealised dur dist g s free k j e) (grealised dur dist g s free k0 j0 (idx0, pl0, cost)) = true.
Proof. exact selected_is_cheapest_refuted_under_prune. Qed.

(* non-vacuity: a metric matrix, one used route and one unused vehicle, two jobs with alternative places / windows, an ignored job, goal
   [unassigned (weighted estimator); Sum (tours, value); distance]: all hypotheses hold, a two-leaf schedule selects quote [-3; -2; 20],
   nine candidates are enumerated *)
Theorem C20_nonvacuous_selected_is_cheapest :
  (forall a b, 0 <= nvs_dist a b) /\ (forall a b c, nvs_dist a c <= nvs_dist a b + nvs_dist b c) /\
  state_ok nvs_sol [nvs_free] /\ jobs_ok nvs_sol nvs_jobs /\ goal_additive nvs_goal /\ weights_nonneg nvs_goal /\
  gselect nvs_dist nvs_dist nvs_goal pr_noskip (PNode (PLeaf (firstn 3 (cartesian_product (offered nvs_sol [nvs_free]) nvs_jobs)))
                                                     (PLeaf (skipn 3 (cartesian_product (offered nvs_sol [nvs_free]) nvs_jobs))))
  = RSuccess ([-3; -2; 20], (0%nat, 91, 0%nat, (0%nat, 4, 0, 0, INF))) /\
  length (flat_map (fun p : (nat * groute) * single => gcands nvs_dist nvs_dist nvs_goal false (snd (fst p)) (snd p))
                   (cartesian_product (offered nvs_sol [nvs_free]) nvs_jobs)) = 9%nat.
Proof. exact consequence_nonvacuous. Qed.

(* ---------- the cost clause "whenever the tour contains no waiting time before and after": the hypothesis is tight ---------- *)

(* WITH waiting the quote differs (documented behaviour of the waiting credit, not a finding): a stop that waits 50 is reached 80 later,
   the tour ends 30 later (realised 30), the quote is 0 *)
Theorem C20_cost_quote_with_waiting_refuted :
  exists dur dist v t idx x,
    (idx < length t)%nat /\ sched_ok dur t /\ v_ptime v = v_psvc v /\ v_psvc v = v_pwait v /\
    (has_jobs t = false -> (length t <= 2)%nat /\ idx = 0%nat) /\ ~ no_wait t /\
    cost_fitness dist v (reschedule dur (insert_after t idx x)) - route_cost dist v t <> cost_quote dur dist v t idx x.
Proof. exact cost_quote_with_waiting_refuted. Qed.

(* ... but it is always a LOWER bound of the realised change (vehicle costs; uniform, non-negative time rates; the recorded schedule is
   the tour's own; only the last activity may be the end, which does not wait), whatever the waiting before or after *)
Theorem C20_cost_quote_lower_bound_with_waiting : forall dur dist v t idx x,
  (idx < length t)%nat -> sched_ok dur t ->
  v_ptime v = v_psvc v -> v_psvc v = v_pwait v -> 0 <= v_ptime v ->
  (has_jobs t = false -> (length t <= 2)%nat /\ idx = 0%nat) ->
  terminals_punctual (tl t) -> jobs_inside t ->
  cost_quote dur dist v t idx x <= cost_fitness dist v (reschedule dur (insert_after t idx x)) - route_cost dist v t.
Proof. exact cost_quote_le_realised. Qed.

(* ... and exact, waiting or not, for the first insertion into an unused tour and for an insertion behind the last activity of an open tour *)
Theorem C20_cost_quote_exact_new_tour_or_last_leg : forall dur dist v t idx x,
  (idx < length t)%nat -> sched_ok dur t ->
  v_ptime v = v_psvc v -> v_psvc v = v_pwait v ->
  (has_jobs t = false -> (length t <= 2)%nat /\ idx = 0%nat) ->
  (has_jobs t = false \/ skipn (S idx) t = []) ->
  cost_fitness dist v (reschedule dur (insert_after t idx x)) - route_cost dist v t = cost_quote dur dist v t idx x.
Proof. exact cost_quote_exact_new_tour_or_last. Qed.

(* the lower bound does NOT extend to a driver who is paid for waiting: the credit is priced with the vehicle's waiting rate only *)
Theorem C20_cost_quote_lower_bound_driver_refuted :
  exists dur dist v d t idx x,
    (idx < length t)%nat /\ sched_ok dur t /\
    v_ptime v = v_psvc v /\ v_psvc v = v_pwait v /\ dc_ptime d = dc_psvc d /\ dc_psvc d = dc_pwait d /\ 0 <= v_ptime v /\ 0 <= dc_ptime d /\
    terminals_punctual (tl t) /\ jobs_inside t /\
    cost_fitness_d dist v d (reschedule dur (insert_after t idx x)) - route_cost_d dist v d t < cost_quote_d dur dist v d t idx x.
Proof. exact cost_quote_lower_bound_driver_refuted. Qed.

(* ---------- objectives of the default goal family that are NOT additive (outside the property's list; modelled, not claimed) ---------- *)

(* duration objective (estimate_leg over durations): even without waiting the quote misses the service time of the new activity *)
Theorem C20_duration_quote_refuted :
  exists dur t idx x,
    (idx < length t)%nat /\ sched_ok dur t /\ no_wait t /\ no_wait (reschedule dur (insert_after t idx x)) /\ has_jobs t = true /\
    total_duration (reschedule dur (insert_after t idx x)) - total_duration t <> leg_estimate dur t idx x.
Proof. exact duration_quote_refuted. Qed.
(* ... exactly by that amount *)
Theorem C20_duration_quote_plus_service_nowait : forall dur t idx x,
  (idx < length t)%nat -> sched_ok dur t -> no_wait t -> no_wait (reschedule dur (insert_after t idx x)) ->
  (has_jobs t = false -> (length t <= 2)%nat /\ idx = 0%nat) ->
  (has_jobs t = false -> sum_svc (tl t) = 0) ->
  total_duration (reschedule dur (insert_after t idx x)) - (if has_jobs t then total_duration t else 0)
  = leg_estimate dur t idx x + a_svc x.
Proof. exact duration_quote_plus_service_nowait. Qed.

(* arrival-time objective: the quote is the actor's shift start, the objective the mean arrival at the tour ends *)
Theorem C20_arrival_quote_refuted :
  exists dur dist s free k jid idx x,
    state_ok s free /\ cand_ok s free k jid idx x /\
    feat_fit_den FMinArrival (gfinalize s) = 1 /\ feat_fit_den FMinArrival (gfinalize (gapply dur s free k jid idx x)) = 1 /\
    feat_fitness dist FMinArrival (gfinalize (gapply dur s free k jid idx x)) - feat_fitness dist FMinArrival (gfinalize s)
    <> feat_est_route FMinArrival (nth k (gs_routes s ++ free) dummy_route) jid
       + feat_est_act dur dist FMinArrival (nth k (gs_routes s ++ free) dummy_route) idx x.
Proof. exact arrival_quote_refuted. Qed.

(* the pragmatic estimators: a clustered job weighs its cluster size, a break the configured break value (default 1), any other job 1;
   a merged job carries the sum of the two values (so its value quote is the sum of the two quotes) *)
Theorem C20_pragmatic_unassigned_estimator : forall breaks a,
  prag_unassigned_est breaks a =
  match ja_clusters a with
  | Some n => Z.of_nat n
  | None => if ja_break a then match breaks with Some b => b | None => 1 end else 1
  end.
Proof. exact prag_unassigned_est_cases. Qed.
Theorem C20_merged_job_value_is_sum : forall a b, merged_value a b = a + b.
Proof. exact merged_value_sum. Qed.

(* ---------- "with time-independent routing": time-dependent routing is excluded, and has to be ---------- *)

(* over the routing-provider model of C16 (Model/Routing.v): a time-aware provider built from two matrices of one profile (time stamps 0
   and 100; the distance 1 -> 0 rises from 10 to 50 at time 100): the inserted stop delays the departure from a later stop past the time
   stamp, the tour's distance grows by 50, the quote (estimate_leg with the code's time arguments) is 10 *)
Theorem C20_td_distance_quote_refuted :
  exists pr, Routing.build [GoalSelTDP.td_m0; GoalSelTDP.td_m1] = Routing.Ok pr /\
    (match pr with Routing.PAware _ _ => True | _ => False end) /\
    has_jobs (GoalSelTDP.td_tour pr) = true /\
    td_leg_estimate (GoalSelTD.td_durD pr) (GoalSelTD.td_distD pr) (GoalSelTDP.td_tour pr) 0 GoalSelTDP.td_x = 10 /\
    td_total_distance (GoalSelTD.td_distD pr) (td_reschedule (GoalSelTD.td_durD pr) (insert_after (GoalSelTDP.td_tour pr) 0 GoalSelTDP.td_x))
    - td_total_distance (GoalSelTD.td_distD pr) (GoalSelTDP.td_tour pr) = 50.
Proof. exact GoalSelTDP.td_distance_quote_differs. Qed.

(* the time-dependent functions over a provider that ignores the time are the functions the exactness theorems are about *)
Theorem C20_td_time_independent_is_core : forall dur dist t idx x,
  td_reschedule (fun a b _ => dur a b) t = reschedule dur t /\
  td_total_distance (fun a b _ => dist a b) t = total_distance dist t /\
  td_leg_estimate (fun a b _ => dur a b) (fun a b _ => dist a b) t idx x = leg_estimate dist t idx x.
Proof. exact GoalSelTDP.td_time_independent_is_core. Qed.
