(* (S) The end-to-end checker, ROUND FIVE: the rules for two more problem features
     1. RECHARGE STATIONS (vehicles.md "recharges ... specifies recharging stations and max distance limit before recharge should
        happen"; model.rs VehicleRecharges: "Maximum traveled distance before recharge station has to be visited", "Each [station]
        can be visited only once"; a station is a place: location, duration, times, tag)
     2. SHARED RELOAD RESOURCES (resources.md: "put limit on amount of deliveries in total loaded to the multiple vehicles on
        specific reload place"; `capacity` "has the same type as vehicle's capacity"; vehicles.md reload.resourceId: "It is used to
        limit amount of deliveries loaded at this reload")
   Nothing of Spec/Valid.v, Spec/ValidTD.v, Spec/ValidX.v changes: the data those records have no field for live in `yproblem`
   next to them, and the existing checkers are REUSED on a transformed document.  A recharge activity (document kind 14) is a
   visit of a station of the tour's vehicle shift that serves nobody: for the groups F (C01) and R (C03) it is presented to the
   existing functions as the service activity (kind 2, no demand) of a pseudo job whose single task offers the stations of that
   shift as its places - so travel, time windows of the station, its duration (counted as serving time), tag, tour size, reachability
   of the two legs, load (unchanged) and cumulative distance are judged by the very functions that judge a job activity.  Added
   rules: ARecharge (C02: the recharge stops of a tour are DISTINCT stations defined for its shift), FRechargeDistance (C01: the
   distance driven without a recharge never exceeds recharges.maxDistance).  The task-order rule ignores recharge activities.
   Written from the format documentation, not from recharge.rs / reloads.rs.  No proofs in this file (Proofs/ValidYP.v). *)
From VRP Require Import Base.Tac Model.Core Spec.Feasible Spec.Intervals Spec.Valid Spec.ValidTD Spec.ValidX.
From VRP Require Model.Routing.

(* ================================================================== the extra problem data *)
Record recharge := mkRecharge { rc_max : Z; rc_stations : list pplace }.
(* yp_recharges: (vehicle type id, shift index) -> the recharges of that shift;
   yp_reload_res: (vehicle type id, shift index) -> the resourceId of every reload of that shift (document order, None = absent);
   yp_resources: fleet.resources (type reload): resource id -> capacity vector (dimension 0, 1, ...) *)
Record yproblem := mkYProblem {
  yp_recharges : list (Z * nat * recharge);
  yp_reload_res : list (Z * nat * list (option Z));
  yp_resources : list (Z * list Z)
}.
Definition Y0 : yproblem := mkYProblem [] [] [].

Definition key_eqb (t : stour) (x : Z * nat) : bool := (fst x =? to_type t) && (snd x =? to_shift t)%nat.
Fixpoint find_from {A} (f : A -> bool) (i : Z) (l : list A) : option (Z * A) :=
  match l with [] => None | x :: r => if f x then Some (i, x) else find_from f (i + 1) r end.
(* the recharges of the vehicle shift that drives tour t, with their index in yp_recharges *)
Definition recharge_of (Y : yproblem) (t : stour) : option (Z * recharge) :=
  match find_from (fun x => key_eqb t (fst x)) 0 (yp_recharges Y) with Some (i, x) => Some (i, snd x) | None => None end.
Definition stations_of (Y : yproblem) (t : stour) : list pplace :=
  match recharge_of Y t with Some (_, r) => rc_stations r | None => [] end.

(* ================================================================== 1. recharge stations *)
Definition is_rc_kind (k : Z) : bool := k =? 14.
Definition recharge_acts (t : stour) : list fact := filter (fun a => is_rc_kind (fa_kind a)) (flat_tour t).

(* ---- A (C02): "every ... recharge stop that appears corresponds to a distinct one defined for that very vehicle shift": the
        recharge activities of a tour can be assigned to DISTINCT stations of the tour's shift (same location, duration = reported
        length, a time window of the station that explains the reported start); a shift without recharges defines no station, so
        none may appear *)
Definition recharges_ok (Y : yproblem) (t : stour) : bool := gassign_b reload_fits (recharge_acts t) (stations_of Y t).
Definition RechargesDefined (Y : yproblem) (t : stour) : Prop := GAssign reload_fits (recharge_acts t) (stations_of Y t).
Definition recharge_viols (Y : yproblem) (S : ssolution) : list violation :=
  concat (mapi (fun k t => if recharges_ok Y t then [] else [ARecharge k]) (sl_tours S)).

(* the rest of the accounting does not look at recharge activities: they are masked (kind 10, which no accounting clause reads)
   IN PLACE, so that every other activity keeps its position, its reported arrival and its index *)
Definition mask_sact (a : sact) : sact :=
  if is_rc_kind (sa_kind a) then mkSAct (-1) 10 (sa_loc a) (sa_time a) (sa_tag a) else a.
Definition mask_stop (s : sstop) : sstop :=
  mkSStop (ss_loc s) (ss_arr s) (ss_dep s) (ss_load s) (ss_dist s) (map mask_sact (ss_acts s)).
Definition mask_tour (t : stour) : stour :=
  mkSTour (to_vehicle t) (to_type t) (to_shift t) (map mask_stop (to_stops t)) (to_stat t) (to_xload t).
Definition mask_sol (S : ssolution) : ssolution := mkSSolution (sl_stat S) (map mask_tour (sl_tours S)) (sl_unassigned S).
Definition no_rc_sol (S : ssolution) : bool :=
  forallb (fun t => forallb (fun s => forallb (fun a => negb (is_rc_kind (sa_kind a))) (ss_acts s)) (to_stops t)) (sl_tours S).

Definition accounted5 (Y : yproblem) (X : xproblem) (XS : xsolution) (P : pproblem) (S : ssolution) : list violation :=
  accounted4 X XS P (mask_sol S) ++ recharge_viols Y S.

(* ---- the document as the existing F / R functions see it: one pseudo job per shift with recharges *)
Definition RECHARGE_BASE : Z := -1000.
Definition rc_job_id (i : Z) : Z := RECHARGE_BASE - i.
Definition rc_job (i : Z) (r : recharge) : pjob :=
  mkPJob (rc_job_id i) [mkPTask 2 (rc_stations r) 0] true [] [] [] None None [] [].
Definition rc_problem (Y : yproblem) (P : pproblem) : pproblem :=
  mkPProblem (pr_jobs P ++ mapi (fun i x => rc_job i (snd x)) (yp_recharges Y)) (pr_fleet P) (pr_n P) (pr_dur P) (pr_dist P) (pr_err P).
Definition rc_sact (j : Z) (a : sact) : sact :=
  if is_rc_kind (sa_kind a) then mkSAct j 2 (sa_loc a) (sa_time a) (sa_tag a) else a.
Definition rc_stop (j : Z) (s : sstop) : sstop :=
  mkSStop (ss_loc s) (ss_arr s) (ss_dep s) (ss_load s) (ss_dist s) (map (rc_sact j) (ss_acts s)).
(* a recharge activity in a tour whose shift defines no recharges stays what it is (FNoTour / RNoReplay, and ARecharge) *)
Definition rc_tour (Y : yproblem) (t : stour) : stour :=
  match recharge_of Y t with
  | Some (i, _) => mkSTour (to_vehicle t) (to_type t) (to_shift t) (map (rc_stop (rc_job_id i)) (to_stops t)) (to_stat t) (to_xload t)
  | None => t
  end.
Definition rc_sol (Y : yproblem) (S : ssolution) : ssolution :=
  mkSSolution (sl_stat S) (map (rc_tour Y) (sl_tours S)) (sl_unassigned S).
Definition is_rc_job (Y : yproblem) (j : Z) : bool :=
  (j <=? RECHARGE_BASE) && (RECHARGE_BASE - j <? Z.of_nat (length (yp_recharges Y))).

(* ---- F (C01): the distance driven without a recharge.  items = one entry per activity behind the departure:
        (is it a recharge?, the distance of the leg that reaches it).  Checker: the counter is reset behind a recharge. *)
Fixpoint seg_ok (m acc : Z) (items : list (bool * Z)) : bool :=
  match items with
  | [] => true
  | (rc, d) :: r => (acc + d <=? m) && seg_ok m (if rc then 0 else acc + d) r
  end.
(* the statement: take any stretch of the tour that begins at the departure or directly behind a recharge and passes no recharge
   on the way (it may END at one): its legs sum up to at most m *)
Definition no_rc_items (l : list (bool * Z)) : Prop := forall x, In x l -> fst x = false.
Definition RechargeOk (m : Z) (items : list (bool * Z)) : Prop :=
  forall l1 l2 a l3, items = l1 ++ l2 ++ a :: l3 ->
    (l1 = [] \/ exists l0 r, l1 = l0 ++ [r] /\ fst r = true) ->
    no_rc_items l2 -> sumz (map snd (l2 ++ [a])) <= m.

Fixpoint leg_items (dist : Z -> Z -> Z) (prev : Z) (l : list fact) : list (bool * Z) :=
  match l with [] => [] | a :: r => (is_rc_kind (fa_kind a), dist prev (fa_loc a)) :: leg_items dist (fa_loc a) r end.
(* classic routing: the matrix distance between consecutive flattened activities of the reported visiting order *)
Definition tour_items (dist : Z -> Z -> Z) (t : stour) : list (bool * Z) :=
  match flat_tour t with [] => [] | s :: r => leg_items dist (fa_loc s) r end.
(* general routing data: the distance of every leg at its departure time in the independent replay (ValidTD.tour_legs_td on the
   tour rebuilt from the transformed document); the flags come from the original document *)
Definition tour_items_td (R : trouting) (pr : Routing.provider) (P' : pproblem) (t t' : stour) : option (list (bool * Z)) :=
  match rebuild P' t' with
  | None => None
  | Some r =>
    let dur := rdur R pr (vt_id (rb_vt r)) in let dist := rdist R pr (vt_id (rb_vt r)) in
    if legs_ok dur dist (rb_acts r)
    then Some (combine (map (fun a => is_rc_kind (fa_kind a)) (tl (flat_tour t))) (map snd (tour_legs_td dur dist (rb_acts r))))
    else None
  end.
Definition recharge_dist_viol (Y : yproblem) (items : stour -> option (list (bool * Z))) (k : Z) (t : stour) : list violation :=
  match recharge_of Y t with
  | None => []
  | Some (_, rc) => match items t with
                    | Some l => if seg_ok (rc_max rc) 0 l then [] else [FRechargeDistance k]
                    | None => []            (* FNoTour / PRouting say so *)
                    end
  end.
Definition recharge_dist_viols (Y : yproblem) (R : option trouting) (P : pproblem) (S : ssolution) : list violation :=
  match R with
  | None => concat (mapi (recharge_dist_viol Y (fun t => Some (tour_items (pdist P) t))) (sl_tours S))
  | Some R' => match provider_of R' with
               | Routing.POk pr => concat (mapi (recharge_dist_viol Y (fun t => tour_items_td R' pr (rc_problem Y P) t (rc_tour Y t)))
                                               (sl_tours S))
               | Routing.PErr _ => []
               end
  end.

(* ---- the task-order rule on the transformed document: recharge activities are no tasks *)
Definition order_seq_y (Y : yproblem) (r : rebuilt) : list Z :=
  map (fun am => let '(_, tk, _, _) := snd am in okey (tk_demand tk))
      (filter (fun am => is_job_kind (fa_kind (fst am)) && negb (is_rc_job Y (fa_job (fst am)))) (rb_jobs r)).
Definition order_viol_y (Y : yproblem) (P' : pproblem) (k : Z) (t' : stour) : list violation :=
  match rebuild (order_problem P') t' with
  | None => []
  | Some r => if sorted_b (order_seq_y Y r) then [] else [FOrder k]
  end.
Definition order_viols_y (Y : yproblem) (P' : pproblem) (S' : ssolution) : list violation :=
  concat (mapi (order_viol_y Y P') (sl_tours S')).

(* ================================================================== 2. shared reload resources *)
(* What a reload activity loads: the static deliveries (incl. the new good of a replacement) served between it and the next
   reload activity / the end of the tour (Spec/Intervals.v: "everything that is delivered in the interval from the ... reload place
   is on board at the interval's start").  Which reload of the shift it is: the first one with its location and duration
   (the reported length); `res_ambiguous` says when that does not determine the resource.  Activities are attributed to tasks by
   kind and location (ValidX.light_match: no reported time enters). *)
Definition reload_res_of (Y : yproblem) (t : stour) : list (option Z) :=
  match find (fun x => key_eqb t (fst x)) (yp_reload_res Y) with Some x => snd x | None => [] end.
Definition fact_res (sh : pshift) (resl : list (option Z)) (a : fact) : option Z :=
  match find (fun pr => place_fits a (fst pr)) (combine (sh_reloads sh) resl) with Some (_, r) => r | None => None end.
Definition static_delivery (P : pproblem) (sh : pshift) (a : fact) : Z :=
  if is_job_kind (fa_kind a)
  then match light_match P sh a with Some (job, tk) => d_ds (demand_of job tk) | None => 0 end
  else 0.
(* (resource, amount) for every delivery loaded at a reload that names a resource; cur = the resource of the current interval *)
Fixpoint use_from (P : pproblem) (sh : pshift) (resl : list (option Z)) (cur : option Z) (l : list fact) : list (Z * Z) :=
  match l with
  | [] => []
  | a :: r => if fa_kind a =? 13 then use_from P sh resl (fact_res sh resl a) r
              else (match cur with Some x => [(x, static_delivery P sh a)] | None => [] end) ++ use_from P sh resl cur r
  end.
Definition tour_use (Y : yproblem) (P : pproblem) (t : stour) : list (Z * Z) :=
  match shift_of P t with
  | Some (_, sh) => use_from P sh (reload_res_of Y t) None (flat_tour t)
  | None => []
  end.
(* total amount taken from resource `res` by all tours of the solution *)
Definition resource_use (Y : yproblem) (P : pproblem) (S : ssolution) (res : Z) : Z :=
  sumz (map snd (filter (fun x => fst x =? res) (flat_map (tour_use Y P) (sl_tours S)))).
(* dimension d of the problem / the solution: d = 0 is what the records hold, d >= 1 the projection of Valid.v *)
Definition proj_problem (d : nat) (P : pproblem) : pproblem := match d with O => P | S d' => dim_problem d' P end.
Definition resource_viols (Y : yproblem) (P : pproblem) (S : ssolution) : list (Z * Z) :=
  flat_map (fun rc => flat_map (fun d => if resource_use Y (proj_problem d P) S (fst rc) <=? nth d (snd rc) 0
                                         then [] else [(fst rc, Z.of_nat d)])
                               (seq 0 (length (snd rc)))) (yp_resources Y).
Definition ResourcesRespected (Y : yproblem) (P : pproblem) (S : ssolution) : Prop :=
  forall res caps d c, In (res, caps) (yp_resources Y) -> nth_error caps d = Some c ->
    resource_use Y (proj_problem d P) S res <= c.
(* precondition of that attribution: two reloads of one shift with the same location and duration name the same resource *)
Fixpoint res_clash (l : list (pplace * option Z)) : bool :=
  match l with
  | [] => false
  | (p, r) :: rest => existsb (fun q => (pl_loc (fst q) =? pl_loc p) && (pl_dur (fst q) =? pl_dur p) && negb (opt_eqb (snd q) r)) rest
                      || res_clash rest
  end.
Definition res_ambiguous (Y : yproblem) (P : pproblem) : list (Z * Z) :=
  flat_map (fun vt => concat (mapi (fun k sh =>
      match find (fun x => (fst (fst x) =? vt_id vt) && (Z.of_nat (snd (fst x)) =? k)) (yp_reload_res Y) with
      | Some x => if res_clash (combine (sh_reloads sh) (snd x)) then [(vt_id vt, k)] else []
      | None => []
      end) (vt_shifts vt))) (pr_fleet P).

(* ================================================================== the groups *)
(* F (C01), problems judged by Valid.v / ValidTD.v (no required breaks, no clustering): R = None is the classic fragment *)
Definition feasible5 (Y : yproblem) (R : option trouting) (P : pproblem) (S : ssolution) : list violation :=
  let P' := rc_problem Y P in let S' := rc_sol Y S in
  feasible_viols_x R P' S'
  ++ (compat_viols P' S' ++ group_viols P' S' ++ reach_viols P' S' ++ dims_feasible_viols P' S' ++ order_viols_y Y P' S'
      ++ break_place_viols P' S')
  ++ recharge_dist_viols Y R P S.
(* R (C03) *)
Definition replay5 (Y : yproblem) (R : option trouting) (P : pproblem) (S : ssolution) : list violation :=
  replay_viol_x R (rc_problem Y P) (rc_sol Y S) ++ xreplay_viols (rc_problem Y P) (rc_sol Y S).

(* ================================================================== 3. required breaks on a shift that also has RELOADS *)
(* Round four kept required breaks off the shifts with reloads because the accounting clause AReload reads the reported LENGTH of a
   reload activity, and an activity that is interrupted by a required break is reported with the break inside (ValidX: `shrink`).
   For a tour whose shift defines required breaks the clause is therefore evaluated on the reload activities of the tour without its
   break activities, each with its NET length (the time of its reported interval outside the reported breaks) - exactly how
   ValidX.rebuild_rb attributes every activity of such a tour; for all other tours it stays Valid.reloads_ok.  Groups F and R need
   nothing new: ValidX.feasible4 / replay4 already rebuild reload activities around the reserved times and keep the loads per reload
   interval. *)
Definition reloads_ok_rb (X : xproblem) (P : pproblem) (t : stour) : bool :=
  match shift_of P t with
  | Some (_, sh) => assign_b (map (shrink (xbreaks X t)) (reload_acts (xstrip X t))) (sh_reloads sh)
  | None => true
  end.
Definition ReloadsDefinedRb (X : xproblem) (P : pproblem) (t : stour) : Prop :=
  forall vt sh, shift_of P t = Some (vt, sh) -> Assign (map (shrink (xbreaks X t)) (reload_acts (xstrip X t))) (sh_reloads sh).
(* the indices of the tours whose shift defines required breaks *)
Definition rb_tour_idx (X : xproblem) (S : ssolution) : list Z :=
  concat (mapi (fun k t => if has_rb X t then [k] else []) (sl_tours S)).
Definition is_rb_reload_viol (X : xproblem) (S : ssolution) (v : violation) : bool :=
  match v with AReload k => zmem k (rb_tour_idx X S) | _ => false end.
Definition reload_rb_viols (X : xproblem) (P : pproblem) (S : ssolution) : list violation :=
  concat (mapi (fun k t => if has_rb X t then (if reloads_ok_rb X P t then [] else [AReload k]) else []) (sl_tours S)).
(* the accounting of round five on the whole: for the tours with required breaks the reload clause is replaced by its
   net-length version, everything else is accounted5 *)
Definition accounted6 (Y : yproblem) (X : xproblem) (XS : xsolution) (P : pproblem) (S : ssolution) : list violation :=
  filter (fun v => negb (is_rb_reload_viol X S v)) (accounted5 Y X XS P S) ++ reload_rb_viols X P S.

(* ================================================================== 4. a reported required break lies inside the tour *)
(* ValidX takes the break intervals a tour reports as part of the reported visiting order; ARequiredBreak says they are defined
   ones, FRequiredBreakMissing that none that is due is missing.  What was not said: a break the tour REPORTS is taken DURING the tour.
   The tour begins when the vehicle departs (the end of its departure activity: the statistic's duration and cost are counted from
   there), so a reported break begins at or after the departure.  (A required break given by an exact time may lie between the shift's
   earliest start and a departure that the solver moved later: it is then not part of the tour at all.)  As everywhere in ValidX, two
   moments with nothing but reported break time between them are the same moment (a departure activity that is over exactly when a
   break begins is reported as over at the break's end): a break may begin before the reported departure when the whole time up
   to the departure is break time. *)
Definition span_ok (B : list (Z * Z)) (dep b : Z) : bool := (dep <=? b) || (net B b dep =? 0).
Definition break_span_viol (X : xproblem) (k : Z) (t : stour) : list (Z * Z) :=
  if has_rb X t
  then flat_map (fun a => if span_ok (tour_breaks t) (tour_dep (flat_tour t)) (fa_start a) then [] else [(k, fa_start a)]) (break_acts t)
  else [].
Definition break_span_viols (X : xproblem) (S : ssolution) : list (Z * Z) := concat (mapi (break_span_viol X) (sl_tours S)).
Definition BreaksInsideTour (X : xproblem) (t : stour) : Prop :=
  has_rb X t = true -> forall a, In a (break_acts t) ->
    tour_dep (flat_tour t) <= fa_start a \/ net (tour_breaks t) (fa_start a) (tour_dep (flat_tour t)) = 0.
