(* (S) The end-to-end checker for GENERAL ROUTING DATA: several routing profiles, a profile `scale` on a vehicle type, and
   time-dependent routing (two or more matrices with a `timestamp` for one profile).

   The routing values are NOT re-modelled here: they are the provider model of property C16 (Model/Routing.v): `prag_build`
   (fleet_reader.rs create_transport_costs: profile index map, errorCodes, time-agnostic vs time-aware provider), `duration` /
   `distance` (costs.rs: value at a timestamp; the first / last matrix outside the span; between two bracketing matrices the
   duration is linear in the departure time and the distance is the left value; the duration is multiplied by the vehicle's
   scale, the distance is not) and `vehicle_profile` (read_fleet).  The generators choose the data so that every value that
   occurs is an integer (integer slopes, integer scales); a leg whose value is not an integer, or has no value, is reported
   as `PRouting` (a precondition of this checker, not a verdict about the solver).

   Every leg is evaluated at ITS departure time (the end of the previous activity in the independent replay), as
   solution_writer.rs / the transport feature do (TravelTime::Departure).  The functions below are the departure-dependent
   twins of Valid.replay / Feasible.sim_time / Valid.tour_legs / replay_cumdist / replay_waiting; Proofs/ValidTDP.v proves that
   with routing functions that ignore the departure they ARE those functions.  Everything that does not look at routing
   values (rebuild, accounting, loads, skills, compatibility, groups, order, break placement) is taken from Spec/Valid.v as it is.
   No proofs in this file. *)
From VRP Require Import Base.Tac Model.Core Spec.Feasible Spec.Intervals Spec.Valid.
From VRP Require Model.Routing.
From Coq Require Import QArith Qround.
#[local] Open Scope Z_scope.

(* ------------------------------------------------------------------ the routing data of the problem document *)
Record trouting := mkTRouting {
  tr_profiles : list nat;                         (* fleet.profiles: the profile names (numbered), document order *)
  tr_mats : list Routing.pmatrix;                 (* the routing matrices, document order; timestamps in ABSOLUTE seconds *)
  tr_types : list (Z * (nat * option (Z * Z)));   (* vehicle type id -> (profile name, scale n/d; None = absent) *)
  tr_base : Z                                     (* absolute time (seconds) of the time origin of the documents *)
}.

Definition BAD : Z := - 2 ^ 61.                   (* "no integer value" *)
Definition q_int (q : Q) : Z := let r := Qred q in if (Zpos (Qden r) =? 1) then Qnum r else BAD.
Definition res_int (r : Routing.res) : Z := match r with Routing.Val q => q_int q | Routing.Panic => BAD end.

Definition type_profile (R : trouting) (tid : Z) : option (nat * Q) :=
  match find (fun x => fst x =? tid) (tr_types R) with
  | Some (_, (vn, sc)) =>
    Routing.vehicle_profile (tr_profiles R) vn (option_map (fun nd : Z * Z => Routing.qz (fst nd) (snd nd)) sc)
  | None => None
  end.

Definition provider_of (R : trouting) : Routing.presult Routing.provider := Routing.prag_build (tr_profiles R) (tr_mats R).

(* travel time / distance from -> to for a vehicle of type tid that departs at dep (document time) *)
Definition rdur (R : trouting) (pr : Routing.provider) (tid : Z) (from to dep : Z) : Z :=
  match type_profile R tid with
  | Some (k, s) => res_int (Routing.duration pr Routing.no_fallback k s (Z.to_nat from) (Z.to_nat to) (inject_Z (dep + tr_base R)))
  | None => BAD
  end.
Definition rdist (R : trouting) (pr : Routing.provider) (tid : Z) (from to dep : Z) : Z :=
  match type_profile R tid with
  | Some (k, _) => res_int (Routing.distance pr Routing.no_fallback k (Z.to_nat from) (Z.to_nat to) (inject_Z (dep + tr_base R)))
  | None => BAD
  end.

(* ------------------------------------------------------------------ departure-dependent replay *)
Section TD.
Variable dur dist : Z -> Z -> Z -> Z.             (* from, to, departure time of the leg *)

Fixpoint sim_time_td (loc dep : Z) (acts : list act) : bool :=
  match acts with
  | [] => true
  | a :: r => let arr := dep + dur loc (a_loc a) dep in
              (arr <=? a_twe a) && sim_time_td (a_loc a) (Z.max arr (a_tws a) + a_svc a) r
  end.
Definition time_feasible_td (t : list act) : bool :=
  match t with [] => false | s :: r => sim_time_td (a_loc s) (a_dep s) r end.

Fixpoint replay_from_td (loc dep : Z) (acts : list act) : list (Z * Z) :=
  match acts with
  | [] => []
  | a :: r => let arr := dep + dur loc (a_loc a) dep in
              let d := Z.max arr (a_tws a) + a_svc a in
              (arr, d) :: replay_from_td (a_loc a) d r
  end.
Definition replay_td (t : list act) : list (Z * Z) :=
  match t with [] => [] | s :: r => (a_arr s, a_dep s) :: replay_from_td (a_loc s) (a_dep s) r end.

(* (driving time, distance) of the leg that reaches each activity behind the start, each at the leg's departure time *)
Fixpoint legs_td (loc dep : Z) (acts : list act) : list (Z * Z) :=
  match acts with
  | [] => []
  | a :: r => let dr := dur loc (a_loc a) dep in
              (dr, dist loc (a_loc a) dep) :: legs_td (a_loc a) (Z.max (dep + dr) (a_tws a) + a_svc a) r
  end.
Definition tour_legs_td (t : list act) : list (Z * Z) :=
  match t with [] => [] | s :: r => legs_td (a_loc s) (a_dep s) r end.
Definition tour_dist_td (t : list act) : Z := sumz (map snd (tour_legs_td t)).
Definition tour_drive_td (t : list act) : Z := sumz (map fst (tour_legs_td t)).
Fixpoint prefix_sums (acc : Z) (l : list Z) : list Z :=
  match l with [] => [] | x :: r => (acc + x) :: prefix_sums (acc + x) r end.
Definition replay_cumdist_td (t : list act) : list Z :=
  match t with [] => [] | _ :: _ => 0 :: prefix_sums 0 (map snd (tour_legs_td t)) end.
Definition replay_duration_td (t : list act) : Z :=
  match t with [] => 0 | s :: _ => snd (last (replay_td t) (0, 0)) - a_dep s end.
Definition replay_waiting_td (t : list act) : Z :=
  sumz (map (fun ax => Z.max (fst (snd ax)) (a_tws (fst ax)) - fst (snd ax)) (tl (combine t (replay_td t)))).
Definition legs_ok (t : list act) : bool :=
  forallb (fun x => negb (fst x =? BAD) && negb (snd x =? BAD)) (tour_legs_td t).
End TD.

Definition replay_stat_td (dur dist : Z -> Z -> Z -> Z) (vt : pvtype) (acts : list act) : sstat :=
  let d := tour_dist_td dur dist acts in
  let u := replay_duration_td dur acts in
  mkSStat (vt_fixed vt + d * vt_cd vt + u * vt_ct vt) d u (tour_drive_td dur dist acts)
          (replay_serving acts - replay_break acts) (replay_waiting_td dur acts) (replay_break acts).

(* ------------------------------------------------------------------ F and R for one tour *)
Definition feasible_viol_td (R : trouting) (pr : Routing.provider) (P : pproblem) (k : Z) (t : stour) : list violation :=
  match rebuild P t with
  | None => [FNoTour k]
  | Some r =>
    let acts := rb_acts r in
    let vt := rb_vt r in let sh := rb_shift r in
    let dur := rdur R pr (vt_id vt) in let dist := rdist R pr (vt_id vt) in
    if negb (legs_ok dur dist acts) then [PRouting k] else
    (if time_feasible_td dur acts then [] else [FInfeasible k])
    ++ (if ivl_load_feasible (v_cap (rb_veh r)) acts then [] else [FCapacity k])
    ++ flat_map (fun am => let '(job, _, _, _) := snd am in if skills_ok vt job then [] else [FSkills k (pj_id job)]) (rb_jobs r)
    ++ (if le_opt (tour_dist_td dur dist acts) (vt_maxdist vt) then [] else [FMaxDistance k])
    ++ (if le_opt (replay_duration_td dur acts) (vt_maxdur vt) then [] else [FMaxDuration k])
    ++ (if le_opt (Z.of_nat (length (rb_jobs r))) (vt_toursize vt) then [] else [FTourSize k])
    ++ (if (fa_loc (rb_dep r) =? sh_start sh) && (sh_earliest sh <=? fa_end (rb_dep r)) && (fa_end (rb_dep r) <=? sh_latest sh)
        then [] else [FShiftStart k])
    ++ (match rb_arr r, sh_end sh with
        | Some e, Some (l, _) => if fa_loc e =? l then [] else [FEndLocation k]
        | _, _ => []
        end)
  end.

Definition replay_tour_td (R : trouting) (pr : Routing.provider) (P : pproblem) (k : Z) (t : stour) : list violation :=
  match rebuild P t with
  | None => [RNoReplay k]
  | Some r =>
    let acts := rb_acts r in
    let vt := rb_vt r in
    let dur := rdur R pr (vt_id vt) in let dist := rdist R pr (vt_id vt) in
    if negb (legs_ok dur dist acts) then [PRouting k] else
    let has_end := match rb_arr r with Some _ => true | None => false end in
    let facts := rb_dep r :: map fst (rb_jobs r) ++ (match rb_arr r with Some e => [e] | None => [] end) in
    let rep := replay_td dur acts in
    act_checks k facts rep
    ++ stop_checks k t facts rep (replay_loads_x has_end acts) (replay_cumdist_td dur dist acts)
    ++ tag_checks k (rb_jobs r)
    ++ stat_checks k (replay_stat_td dur dist vt acts) (to_stat t)
  end.

Definition feasible_viols_td (R : trouting) (P : pproblem) (S : ssolution) : list violation :=
  match provider_of R with
  | Routing.POk pr => concat (mapi (feasible_viol_td R pr P) (sl_tours S))
  | Routing.PErr _ => [PRouting (-1)]
  end.
Definition replay_viol_td (R : trouting) (P : pproblem) (S : ssolution) : list violation :=
  match provider_of R with
  | Routing.POk pr => concat (mapi (replay_tour_td R pr P) (sl_tours S)) ++ total_checks S
  | Routing.PErr _ => []
  end.

(* the whole checker for a problem with general routing data (reachability by errorCodes is part of the routing values: an
   unreachable leg reads -1 as in Valid.pdur; `reach_viols` of Valid looks at pr_err of the base matrix only, so errorCodes
   are not combined with general routing by the generator) *)
Definition valid_td (R : trouting) (P : pproblem) (S : ssolution) : list violation :=
  precond_viol P ++ accounted_b P S ++ feasible_viols_td R P S ++ replay_viol_td R P S ++ xfeasible_viols P S ++ xreplay_viols P S.

(* what the plugins evaluate: general routing data present -> valid_td, otherwise Valid.valid_b unchanged *)
Definition valid_x (R : option trouting) (P : pproblem) (S : ssolution) : list violation :=
  match R with Some r => valid_td r P S | None => valid_b P S end.
Definition feasible_viols_x (R : option trouting) (P : pproblem) (S : ssolution) : list violation :=
  match R with Some r => feasible_viols_td r P S | None => feasible_viols P S end.
Definition replay_viol_x (R : option trouting) (P : pproblem) (S : ssolution) : list violation :=
  match R with Some r => replay_viol_td r P S | None => replay_viol P S end.
