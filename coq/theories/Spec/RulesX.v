(* C10 — the documented validation rules on the EXTENDED document (relations E12xx, objectives E16xx, routing E15xx in every
   location / matrix mode), written from docs/src/concepts/pragmatic/errors/index.md as decidable predicates, NOT from the code.
   The job / vehicle rules are Spec/Rules.v on the base document.  No proofs here.

   Readings adopted where the page is silent or loose (all in favour of the code, none raises an alarm; R1-R10 are in Spec/Rules.v):
     R11 E1203 ("strict or sequence relation has job with multiple places or time windows") applies to a relation of EVERY type:
         the unit test relations_test.rs::can_detect_multi_place_time_window_jobs case03 pins `any`;
     R12 an id that is defined more than once (then E1100 / E1301 is broken as well) names its LAST definition (E1203, E1205,
         E1206, E1207);
     R13 the reserved ids `departure`, `arrival`, `break`, `reload` are not job ids (E1200, E1202, E1203, E1204); E1207 counts
         every id of the relation that names a job of the plan;
     R14 a relation without `shiftIndex` speaks about the first shift (E1205, E1206);
     R15 the E16xx rules speak about the `objectives` property ("These errors are related to `objectives` property definition"):
         none of them, E1605 included, is broken when the property is absent;
     R16 "objective of specific type specified more than once" (E1601) and "no cost objective specified" (E1602) count the
         objectives written directly in the list and directly inside a `multi-objective` of the list (an objective inside such a
         `multi-objective` that is itself a `multi-objective` counts as one objective of type `multi-objective`); E1603, E1604,
         E1606, E1607 speak about the objectives written directly in the list;
     R17 job `value` and task `order` "less than 1" as written (value 0.5 breaks E1605 and is a non-zero value for E1603 / E1607);
     R18 E1504 "amount of locations does not match matrix dimension": the dimension is the rounded square root of the number of
         distances of the FIRST matrix; the rule is broken when the number of distinct locations (at least 1) differs from it or a
         location index is not below it; without a supplied matrix the problem is matched against the approximated matrix (R8);
     R19 E1503 "no routing matrix provided": none supplied, or an empty list;
     R20 E1505 speaks about every vehicle type and about `plan.clustering.profile`.

   Second half: the KNOWN deviation classes on the extended document (structural predicates; each one is a finding). *)
From VRP Require Import Base.Tac Model.Validation Model.ValidationX Spec.Rules.
From Coq Require Import String.

Definition xjobs (d : xdoc) : list job := map xj_job (x_jobs d).
Definition xvehicles (d : xdoc) : list vehicle := map xv_vehicle (x_vehicles d).
Definition rels (d : xdoc) : list relation := match x_relations d with Some r => r | None => [] end.
Definition has_str (x : string) (l : list string) : bool := existsb (String.eqb x) l.
Definition is_reserved (id : string) : bool := has_str id ["departure"; "arrival"; "break"; "reload"]%string.
(* R12: the last definition of an id *)
Definition job_named (d : xdoc) (id : string) : option job := find (fun j => String.eqb (j_id j) id) (rev (xjobs d)).
Definition vehicle_with (d : xdoc) (id : string) : option vehicle := find (fun v => has_str id (v_ids v)) (rev (xvehicles d)).
Definition shift_of (r : relation) : nat := match r_shift r with Some i => i | None => 0%nat end.      (* R14 *)
Definition named_shift (d : xdoc) (r : relation) : option shift :=
  match vehicle_with d (r_vehicle r) with Some v => nth_error (v_shifts v) (shift_of r) | None => None end.

(* ---------- E12xx ---------- *)
Definition viol_1200 (d : xdoc) : bool :=
  existsb (fun r => existsb (fun id => negb (is_reserved id) && negb (has_str id (map j_id (xjobs d)))) (r_jobs r)) (rels d).
Definition viol_1201 (d : xdoc) : bool :=
  existsb (fun r => negb (has_str (r_vehicle r) (flat_map v_ids (xvehicles d)))) (rels d).
Definition viol_1202 (d : xdoc) : bool := existsb (fun r => forallb is_reserved (r_jobs r)) (rels d).
Definition several {A} (l : list A) : bool := (2 <=? List.length l)%nat.
Definition multi_place_or_window (j : job) : bool :=
  existsb (fun t => several (tk_places t)
                    || existsb (fun p => match pl_times p with Some tws => several tws | None => false end) (tk_places t))
          (job_tasks j).
Definition viol_1203 (d : xdoc) : bool :=                                                                   (* R11 *)
  existsb (fun r => existsb (fun id => negb (is_reserved id)
                                        && match job_named d id with Some j => multi_place_or_window j | None => false end)
                            (r_jobs r)) (rels d).
Definition viol_1204 (d : xdoc) : bool :=
  existsb (fun r1 => existsb (fun r2 => negb (String.eqb (r_vehicle r1) (r_vehicle r2))
                                        && existsb (fun id => negb (is_reserved id) && has_str id (r_jobs r2)) (r_jobs r1))
                             (rels d)) (rels d).
Definition viol_1205 (d : xdoc) : bool :=
  existsb (fun r => match vehicle_with d (r_vehicle r) with
                    | Some v => (List.length (v_shifts v) <=? shift_of r)%nat
                    | None => false
                    end) (rels d).
Definition viol_1206 (d : xdoc) : bool :=
  existsb (fun r => match named_shift d r with
                    | Some s => (has_str "break" (r_jobs r) && match sh_breaks s with None => true | Some _ => false end)
                                || (has_str "reload" (r_jobs r) && match sh_reloads s with None => true | Some _ => false end)
                                || (has_str "arrival" (r_jobs r) && match sh_end s with None => true | Some _ => false end)
                    | None => false
                    end)%string (rels d).
Definition viol_1207 (d : xdoc) : bool :=
  existsb (fun r => existsb (fun id => match job_named d id with
                                       | Some j => negb (List.length (filter (String.eqb id) (r_jobs r)) =? List.length (job_tasks j))%nat
                                       | None => false
                                       end) (r_jobs r)) (rels d).

(* ---------- E16xx ---------- *)
Definition COST_TAGS : list nat := [0; 1; 2]%nat.
Definition has_nat (x : nat) (l : list nat) : bool := existsb (Nat.eqb x) l.
Fixpoint nat_nodupb (l : list nat) : bool := match l with [] => true | x :: r => negb (has_nat x r) && nat_nodupb r end.
(* R16: the objectives written in the list or directly inside one of its multi-objectives, by type *)
Definition member_types (objs : list objective) : list nat :=
  flat_map (fun o => match o with
                     | OObj t _ => [t]
                     | OMulti _ ins => map (fun i => match i with IObj t _ => t | INested => 16%nat end) ins
                     end) objs.
Definition listed_types (objs : list objective) : list nat :=
  flat_map (fun o => match o with OObj t _ => [t] | OMulti _ _ => [] end) objs.
Definition some_value_positive (d : xdoc) : bool :=
  existsb (fun j => match xj_value j with Some v => 1 <=? v | None => false end) (x_jobs d).          (* thousandths: > 0 *)
Definition some_order_positive (d : xdoc) : bool := existsb (fun j => existsb (fun o => 1 <=? o) (xj_orders j)) (x_jobs d).
Definition with_objectives (d : xdoc) (f : list objective -> bool) : bool :=                          (* R15 *)
  match x_objectives d with Some objs => f objs | None => false end.
Definition viol_1600 (d : xdoc) : bool := with_objectives d (fun objs => negb (nonempty objs)).
Definition viol_1601 (d : xdoc) : bool := with_objectives d (fun objs => negb (nat_nodupb (member_types objs))).
Definition viol_1602 (d : xdoc) : bool :=
  with_objectives d (fun objs => forallb (fun t => negb (has_nat t COST_TAGS)) (member_types objs)).
Definition viol_1603 (d : xdoc) : bool :=
  with_objectives d (fun objs => has_nat 5%nat (listed_types objs) && negb (some_value_positive d)).
Definition viol_1604 (d : xdoc) : bool :=
  with_objectives d (fun objs => has_nat 13%nat (listed_types objs) && negb (some_order_positive d)).
Definition viol_1605 (d : xdoc) : bool :=                                                              (* R17 *)
  with_objectives d (fun _ => existsb (fun j => existsb (fun o => o <=? 0) (xj_orders j)
                                                || match xj_value j with Some v => v <=? 999 | None => false end) (x_jobs d)).
Definition viol_1606 (d : xdoc) : bool :=
  with_objectives d (fun objs => several (filter (fun t => has_nat t COST_TAGS) (listed_types objs))).
Definition viol_1607 (d : xdoc) : bool :=
  with_objectives d (fun objs => nonempty objs && negb (has_nat 5%nat (listed_types objs)) && some_value_positive d).

(* ---------- E15xx ---------- *)
Definition loc_is_index (l : loc) : bool := match l with LIndex _ => true | LCoord _ => false end.
Definition same_loc (a b : loc) : bool :=
  match a, b with
  | LCoord x, LCoord y => Z.eqb x y
  | LIndex i, LIndex j => Nat.eqb i j
  | _, _ => false
  end.
(* number of distinct locations *)
Fixpoint ndistinct (l : list loc) : nat :=
  match l with [] => 0%nat | x :: r => if existsb (same_loc x) r then ndistinct r else S (ndistinct r) end.
Definition xviol_1500 (d : xdoc) : bool := negb (nodupb (x_profiles d)).
Definition xviol_1501 (d : xdoc) : bool := negb (nonempty (x_profiles d)).
Definition xviol_1502 (d : xdoc) : bool :=
  existsb loc_is_index (x_locs d) && existsb (fun l => negb (loc_is_index l)) (x_locs d).
Definition xviol_1503 (d : xdoc) : bool :=                                                             (* R19 *)
  existsb loc_is_index (x_locs d) && match x_matrices d with Some (_ :: _) => false | _ => true end.
Definition xviol_1504 (d : xdoc) : bool :=                                                             (* R18, R8 *)
  match x_matrices d with
  | Some (m :: _) =>
      let dim := round_sqrt (List.length (m_dist (xm_matrix m))) in
      negb (Nat.max 1 (ndistinct (x_locs d)) =? dim)%nat
      || existsb (fun l => match l with LIndex i => (dim <=? i)%nat | LCoord _ => false end) (x_locs d)
  | Some [] => false
  | None => negb (existsb loc_is_index (x_locs d)) && nonempty (x_profiles d) && negb (nonempty (x_locs d))
            && negb (existsb (fun s => s <=? 0) (x_speeds d))       (* nothing is approximated for a speed that is not positive *)
  end.
Definition xviol_1505 (d : xdoc) : bool :=                                                             (* R20 *)
  existsb (fun v => negb (has_str (v_profile v) (x_profiles d))) (xvehicles d)
  || match x_clustering d with Some p => negb (has_str p (x_profiles d)) | None => false end.

(* ---------- the rule table of the extended document ---------- *)
Definition on_base (f : doc -> bool) (d : xdoc) : bool := f (xbase d).
Definition xspec_table : list (Z * (xdoc -> bool)) :=
  [(1100, on_base Rules.viol_1100); (1101, on_base Rules.viol_1101); (1102, on_base Rules.viol_1102); (1103, on_base Rules.viol_1103);
   (1104, on_base Rules.viol_1104); (1105, on_base Rules.viol_1105); (1106, on_base Rules.viol_1106); (1107, on_base Rules.viol_1107);
   (1300, on_base Rules.viol_1300); (1301, on_base Rules.viol_1301); (1302, on_base Rules.viol_1302); (1303, on_base Rules.viol_1303);
   (1304, on_base Rules.viol_1304); (1306, on_base Rules.viol_1306); (1307, on_base Rules.viol_1307); (1308, on_base Rules.viol_1308);
   (1600, viol_1600); (1601, viol_1601); (1602, viol_1602); (1603, viol_1603);
   (1604, viol_1604); (1605, viol_1605); (1606, viol_1606); (1607, viol_1607);
   (1500, xviol_1500); (1501, xviol_1501); (1502, xviol_1502); (1503, xviol_1503); (1504, xviol_1504); (1505, xviol_1505);
   (1200, viol_1200); (1201, viol_1201); (1202, viol_1202); (1203, viol_1203);
   (1204, viol_1204); (1205, viol_1205); (1206, viol_1206); (1207, viol_1207)].
Fixpoint xlookup (c : Z) (t : list (Z * (xdoc -> bool))) : option (xdoc -> bool) :=
  match t with [] => None | (k, f) :: r => if c =? k then Some f else xlookup c r end.
(* the documented rule `c` is broken by the extended document `d` *)
Definition xviolates (c : Z) (d : xdoc) : bool :=
  match xlookup c xspec_table with Some f => f d | None => false end.

(* ---------- known deviation classes on the extended document ---------- *)
(* K6 .. K9 of Spec/Rules.v on the base document; K7 also for the capacity vector of a reload resource *)
Definition xk7_over8 (d : xdoc) : bool := k7_over8 (xbase d) || existsb (fun n => (8 <? n)%nat) (x_resource_dims d).
(* X11: a relation names `break` / `reload` / `recharge` more often than the named shift of the named vehicle has optional breaks /
   reloads / recharge stations (E1206 only asks whether `breaks` / `reloads` is present; `recharge` is no reserved id) *)
Definition kinds_available (v : xvehicle) (s : shift) (i : nat) (kind : string) : nat :=
  if String.eqb kind "break" then List.length (filter (fun b => match b with BOptTW _ | BOptOff _ => true | _ => false end)
                                                      (match sh_breaks s with Some bs => bs | None => [] end))
  else if String.eqb kind "reload" then List.length (match sh_reloads s with Some rs => rs | None => [] end)
  else match nth i (xv_recharges v) None with Some sts => List.length sts | None => 0%nat end.
Definition x11_special_without_job (d : xdoc) : bool :=
  existsb (fun r =>
    existsb (fun v => has_str (r_vehicle r) (v_ids (xv_vehicle v))
                      && match nth_error (v_shifts (xv_vehicle v)) (shift_of r) with
                         | Some s => existsb (fun kind => (kinds_available v s (shift_of r) kind
                                                           <? List.length (filter (String.eqb kind) (r_jobs r)))%nat)
                                             ["break"; "reload"; "recharge"]%string
                         | None => false
                         end) (x_vehicles d)) (rels d).
(* X14: read without a routing matrix, coordinates only, a profile with an explicit speed <= 0 *)
Definition x14_speed_not_positive (d : xdoc) : bool :=
  match x_matrices d with
  | Some _ => false
  | None => negb (existsb loc_is_index (x_locs d)) && nonempty (x_profiles d) && existsb (fun s => s <=? 0) (x_speeds d)
  end.
(* X16: a recharge station whose `times` is not a list of pairs of dates (no rule looks at recharge stations) *)
Definition window_is_dates (w : twraw) : bool := match parse_window w with Some _ => true | None => false end.
Definition x16_recharge_times (d : xdoc) : bool :=
  existsb (fun v => existsb (fun o => match o with
                                      | Some sts => existsb (fun t => match t with
                                                                      | Some tws => negb (forallb window_is_dates tws)
                                                                      | None => false end) sts
                                      | None => false
                                      end) (xv_recharges v)) (x_vehicles d).
(* G1: an `objectives` definition that no E16xx rule rejects but from which no goal can be built (reported as E0000):
   a compact-tour radius below 1, a multi-objective inside a multi-objective, an empty multi-objective, a multi-objective of
   objectives without constraint and state (minimize-tours, maximize-tours, minimize-unassigned, minimize-arrival-time) only,
   a weighted sum whose number of weights differs from the number of its objectives, or nothing but multi-objectives
   (and no vehicle break) *)
Definition PLAIN_OBJECTIVE_TAGS : list nat := [3; 4; 6; 7]%nat.
Definition g1_multi_bad (st : strategy) (ins : list inner) : bool :=
  negb (nonempty ins)
  || existsb (fun i => match i with INested => true | IObj t a => Nat.eqb t 12 && (a <=? 0) end) ins
  || forallb (fun i => match i with IObj t _ => has_nat t PLAIN_OBJECTIVE_TAGS | INested => false end) ins
  || match st with SSum => false | SWeighted w => negb (Nat.eqb w (List.length ins)) end.
Definition some_break (d : xdoc) : bool :=
  existsb (fun v => existsb (fun s => match sh_breaks s with Some bs => nonempty bs | None => false end) (v_shifts v)) (xvehicles d).
Definition g1_goal_unbuildable (d : xdoc) : bool :=
  match x_objectives d with
  | None => false
  | Some objs =>
      existsb (fun o => match o with OObj t a => Nat.eqb t 12 && (a <=? 0) | OMulti st ins => g1_multi_bad st ins end) objs
      || (negb (nonempty (listed_types objs)) && negb (some_break d))
  end.
(* G2 (Spec/Rules.v :: g2_required_breaks_of on the base document): required breaks of one shift of both kinds, or with
   intersecting spans (reported as E0002 "check fleet definition") *)
Definition g2_required_breaks (d : xdoc) : bool := g2_required_breaks_of (xbase d).

Definition xknown_table : list (Z * (xdoc -> bool)) :=
  [(7, xk7_over8); (9, on_base k9_no_vehicles);                    (* K6, K8, X14: repaired in /repo *)
   (11, x11_special_without_job); (16, x16_recharge_times);
   (21, g1_goal_unbuildable); (22, g2_required_breaks)].
Definition xknown (d : xdoc) : bool := existsb (fun kf => snd kf d) xknown_table.

(* ---------- a base document inside the extended type: no relations, objectives, clustering, supplied matrices or index locations,
   and a location list that is empty exactly when the base document has no location ---------- *)
Definition is_base_document (d : xdoc) : bool :=
  is_none (x_relations d) && is_none (x_objectives d) && is_none (x_clustering d) && is_none (x_matrices d)
  && negb (existsb is_index (x_locs d)) && Bool.eqb (nonempty (x_locs d)) (has_location (xbase d))
  && negb (existsb (fun s => s <=? 0) (x_speeds d)).


(* ---------- entry points for the correspondence ---------- *)
Definition run_xspec (d : xdoc) : list Z := map fst (filter (fun cf => snd cf d) xspec_table).
Definition run_xknown (d : xdoc) : list Z := map fst (filter (fun kf => snd kf d) xknown_table).
