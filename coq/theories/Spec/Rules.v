(* C10 — the documented validation rules (docs/src/concepts/pragmatic/errors/index.md), written from the text of that page as
   decidable predicates `violates code document`, NOT from the code.  No proofs here.

   Where the page is silent or loose, the reading adopted is stated at the rule (they are choices in favour of the code:
   no alarm is raised for them):
     R1  "start date is earlier than end date"          read as start <= end (a zero-length window is allowed);
     R2  a `times` list that is present must contain at least one window; a vehicle must have at least one shift (E1302);
     R3  "must not intersect" is on closed intervals (touching windows intersect);
     R4  "break/reload time should be inside vehicle shift" read as "intersects the shift [start.earliest, end.latest]"
         (open end = year 2200), only checked when both shift times are dates;
     R5  a shift without `end` contributes the degenerate window [start.earliest, start.earliest] to E1302;
     R6  E1303: required breaks contribute [earliest, latest + duration] (exact) or [start + earliest, start + latest + duration]
         (offset); an optional break given by offsets must be a pair of numbers (the counterpart of "array of two strings"),
         a well-formed one contributes no window (the page does not describe required or offset breaks at all);
     R7  E1307 "`start.latest` is not set equal to `start.earliest`" is a comparison of the two strings;
     R8  E1504 on documents without a routing matrix: a problem that has a profile but not a single location does not match
         the (empty) approximated matrix;
     R9  E1103 speaks about "a job which has invalid time windows": every task kind (pickup, delivery, replacement, service);
     R10 E1302 "start/end shift times ... time windows rules": the optional `start.latest` is one of the start times of the shift
         and must be a date in RFC3339 format as well (no ordering between start.earliest and start.latest is demanded).
   Codes of the relation (E12xx) and objective (E16xx) groups and E1502/E1503 cannot be violated by a reduced document
   (no relations, no objectives, coordinate locations only): `violates` is false for them here; they are exercised by the
   python reference in tools/props/c10.py.

   The second half defines the KNOWN deviation classes (structural predicates on the document; each one is a finding with a
   `_refuted` witness in Properties/C10.v). *)
From VRP Require Import Base.Tac Model.Validation.
From Coq Require Import String.

(* ---------- time-window rules of E1103 ---------- *)
(* "array of two strings each of these specifies date in RFC3339 format" *)
Definition parse_window (w : twraw) : option (Z * Z) :=
  match w with
  | [a; b] => match tm_val a, tm_val b with Some s, Some e => Some (s, e) | _, _ => None end
  | _ => None
  end.
Definition overlap (a b : Z * Z) : bool := negb ((snd a <? fst b) || (snd b <? fst a)).      (* R3 *)
Fixpoint pairwise {A} (r : A -> A -> bool) (l : list A) : bool :=
  match l with [] => true | x :: t => forallb (r x) t && pairwise r t end.
Fixpoint somes {A} (l : list (option A)) : list A :=
  match l with [] => [] | Some x :: r => x :: somes r | None :: r => somes r end.
(* every window is a proper date pair with start <= end (R1); unless intersections are allowed, no two intersect *)
Definition windows_ok (allow_intersections : bool) (ws : list (option (Z * Z))) : bool :=
  forallb (fun o => match o with Some w => fst w <=? snd w | None => false end) ws
  && (allow_intersections || pairwise (fun a b => negb (overlap a b)) (somes ws)).
Definition nonempty {A} (l : list A) : bool := match l with [] => false | _ => true end.
Definition times_ok (tws : list twraw) : bool := nonempty tws && windows_ok false (map parse_window tws).    (* R2 *)

Fixpoint nodupb (l : list string) : bool :=
  match l with [] => true | x :: r => negb (existsb (String.eqb x) r) && nodupb r end.

Definition tasks (o : option (list task)) : list task := match o with Some l => l | None => [] end.
Definition job_tasks (j : job) : list task :=
  tasks (j_pickups j) ++ tasks (j_deliveries j) ++ tasks (j_replacements j) ++ tasks (j_services j).

(* ---------- E11xx ---------- *)
Definition viol_1100 (d : doc) : bool := negb (nodupb (map j_id (d_jobs d))).
Definition viol_1101 (d : doc) : bool :=
  existsb (fun j =>
    existsb (fun t => match tk_demand t with None => true | Some _ => false end)
            (tasks (j_pickups j) ++ tasks (j_deliveries j) ++ tasks (j_replacements j))
    || existsb (fun t => match tk_demand t with Some _ => true | None => false end) (tasks (j_services j))) (d_jobs d).
(* sum of the i-th demand dimension over a task list (a missing dimension is 0) *)
Definition dim_sum (i : nat) (ts : list task) : Z :=
  fold_right (fun t acc => nth i (match tk_demand t with Some v => v | None => [] end) 0 + acc) 0 ts.
Definition viol_1102 (d : doc) : bool :=
  existsb (fun j =>
    nonempty (tasks (j_pickups j)) && nonempty (tasks (j_deliveries j))
    && existsb (fun i => negb (dim_sum i (tasks (j_pickups j)) =? dim_sum i (tasks (j_deliveries j)))) (seq 0 8)) (d_jobs d).
Definition viol_1103 (d : doc) : bool :=                                                                  (* R9 *)
  existsb (fun j => existsb (fun t => existsb (fun p => match pl_times p with
                                                         | Some tws => negb (times_ok tws)
                                                         | None => false end) (tk_places t)) (job_tasks j)) (d_jobs d).
Definition viol_1104 (d : doc) : bool :=
  existsb (fun j => existsb (String.eqb (j_id j)) ["departure"; "arrival"; "break"; "reload"]%string) (d_jobs d).
Definition viol_1105 (d : doc) : bool := existsb (fun j => negb (nonempty (job_tasks j))) (d_jobs d).
Definition viol_1106 (d : doc) : bool :=
  existsb (fun j => existsb (fun t => existsb (fun p => pl_duration p <? 0) (tk_places t)) (job_tasks j)) (d_jobs d).
Definition viol_1107 (d : doc) : bool :=
  existsb (fun j => existsb (fun t => existsb (fun x => x <? 0) (match tk_demand t with Some v => v | None => [] end))
                            (job_tasks j)) (d_jobs d).

(* ---------- E13xx ---------- *)
Definition far : Z := 7274016000.                               (* 2200-07-04T00:00:00Z, R4 *)
Definition shift_window (s : shift) : option (Z * Z) :=         (* R5 *)
  match tm_val (sh_earliest s), match sh_end s with Some e => tm_val e | None => tm_val (sh_earliest s) end with
  | Some a, Some b => Some (a, b) | _, _ => None end.
Definition shift_span (s : shift) : option (Z * Z) :=           (* R4 *)
  match tm_val (sh_earliest s), match sh_end s with Some e => tm_val e | None => Some far end with
  | Some a, Some b => Some (a, b) | _, _ => None end.
Definition inside_shift (s : shift) (ws : list (option (Z * Z))) : bool :=
  match shift_span s with
  | None => true
  | Some sp => forallb (fun w => overlap w sp) (somes ws)
  end.
Definition break_windows (s : shift) (bs : list brk) : list (option (Z * Z)) :=       (* R6 *)
  flat_map (fun b => match b with
                     | BOptTW w => [parse_window w]
                     | BOptOff o => if (List.length o =? 2)%nat then [] else [None]
                     | BReqOff e l dur => [match tm_val (sh_earliest s) with
                                           | Some dep => Some (dep + e, dep + l + dur) | None => None end]
                     | BReqExact e l dur => [match tm_val e, tm_val l with
                                             | Some a, Some b => Some (a, b + dur) | _, _ => None end]
                     end) bs.
Definition reload_windows (rs : list reload) : list (option (Z * Z)) :=
  flat_map (fun r => match rl_times r with Some tws => map parse_window tws | None => [] end) rs.

Definition viol_1300 (d : doc) : bool := negb (nodupb (map v_type (d_vehicles d))).
Definition viol_1301 (d : doc) : bool := negb (nodupb (flat_map v_ids (d_vehicles d))).
Definition latest_is_date (s : shift) : bool :=                 (* R10 *)
  match sh_latest s with Some l => match tm_val l with Some _ => true | None => false end | None => true end.
Definition viol_1302 (d : doc) : bool :=
  existsb (fun v => negb (nonempty (v_shifts v) && windows_ok false (map shift_window (v_shifts v)))
                    || existsb (fun s => negb (latest_is_date s)) (v_shifts v)) (d_vehicles d).
Definition viol_1303 (d : doc) : bool :=
  existsb (fun v => existsb (fun s => match sh_breaks s with
                                      | None => false
                                      | Some bs => let ws := break_windows s bs in
                                                   nonempty ws && negb (windows_ok false ws && inside_shift s ws)
                                      end) (v_shifts v)) (d_vehicles d).
Definition viol_1304 (d : doc) : bool :=
  existsb (fun v => existsb (fun s => match sh_reloads s with
                                      | None => false
                                      | Some rs => let ws := reload_windows rs in
                                                   nonempty ws && negb (windows_ok true ws && inside_shift s ws)
                                      end) (v_shifts v)) (d_vehicles d).
Definition viol_1306 (d : doc) : bool :=
  existsb (fun v => (v_cost_distance v =? 0) && (v_cost_time v =? 0)) (d_vehicles d).
Definition viol_1307 (d : doc) : bool :=                                                                  (* R7 *)
  existsb (fun v => existsb (fun s =>
      existsb (fun b => match b with BOptOff _ | BReqOff _ _ _ => true | _ => false end)
              (match sh_breaks s with Some bs => bs | None => [] end)
      && match sh_latest s with
         | Some l => negb (String.eqb (tm_txt l) (tm_txt (sh_earliest s)))
         | None => true
         end) (v_shifts v)) (d_vehicles d).
Definition viol_1308 (d : doc) : bool :=
  let ids := match d_resources d with Some l => l | None => [] end in
  negb (nodupb ids)
  || existsb (fun v => existsb (fun s => existsb (fun r => match rl_resource r with
                                                           | Some x => negb (existsb (String.eqb x) ids)
                                                           | None => false end)
                                                 (match sh_reloads s with Some rs => rs | None => [] end))
                               (v_shifts v)) (d_vehicles d).

(* ---------- E15xx (coordinate-only documents, no routing matrix supplied) ---------- *)
Definition viol_1500 (d : doc) : bool := negb (nodupb (d_profiles d)).
Definition viol_1501 (d : doc) : bool := negb (nonempty (d_profiles d)).
Definition any_location (d : doc) : bool :=
  existsb (fun j => existsb (fun t => nonempty (tk_places t)) (job_tasks j)) (d_jobs d)
  || existsb (fun v => nonempty (v_shifts v)) (d_vehicles d).
Definition viol_1504 (d : doc) : bool := nonempty (d_profiles d) && negb (any_location d).               (* R8 *)
Definition viol_1505 (d : doc) : bool :=
  existsb (fun v => negb (existsb (String.eqb (v_profile v)) (d_profiles d))) (d_vehicles d).

Definition spec_table : list (Z * (doc -> bool)) :=
  [(1100, viol_1100); (1101, viol_1101); (1102, viol_1102); (1103, viol_1103);
   (1104, viol_1104); (1105, viol_1105); (1106, viol_1106); (1107, viol_1107);
   (1300, viol_1300); (1301, viol_1301); (1302, viol_1302); (1303, viol_1303);
   (1304, viol_1304); (1306, viol_1306); (1307, viol_1307); (1308, viol_1308);
   (1500, viol_1500); (1501, viol_1501); (1504, viol_1504); (1505, viol_1505)].

Fixpoint lookup (c : Z) (t : list (Z * (doc -> bool))) : option (doc -> bool) :=
  match t with [] => None | (k, f) :: r => if c =? k then Some f else lookup c r end.
(* the documented rule `c` is broken by document `d` *)
Definition violates (c : Z) (d : doc) : bool :=
  match lookup c spec_table with Some f => f d | None => false end.

(* ---------- known deviation classes ---------- *)
(* K1 (windows(2).any for three or more windows), K2 (E1103 skipped replacement / service tasks) and K3 (check_e1303 called the
   panicking parse_time) were repaired in /repo (commits c324ed4, d5aa3e7, 89050ae): they are no longer deviation classes, the
   theorems now cover those documents; the former witnesses are regression cases (corpus/C10: files k01-, k02-, k03-). *)
(* K4 (shift start.latest is not a date: no rule looked at it, read_fleet unwraps), K5 (optional break with an offset list whose
   length is not 2: read_optional_breaks panics) and K10 (no routing profile and no routing matrix: the approximated matrices
   asserted before validation ran) were repaired in /repo (commits d67b161, 7653bff, 11fbd19): E1302 / E1303 / E1501 are reported
   now, the theorems cover those documents; the former witnesses are regression cases (corpus/C10: files k04-, k05-, k10-). *)
(* K6: vehicle type with an empty capacity vector *)
Definition k6_capacity_empty (d : doc) : bool :=
  existsb (fun v => match v_capacity v with [] => true | _ => false end) (d_vehicles d).
(* K7: a demand or capacity vector with more than 8 dimensions (MultiDimLoad::new asserts) *)
Definition k7_over8 (d : doc) : bool :=
  existsb (fun v => (8 <? List.length (v_capacity v))%nat) (d_vehicles d)
  || existsb (fun j => existsb (fun t => match tk_demand t with Some v => (8 <? List.length v)%nat | None => false end)
                               (job_tasks j)) (d_jobs d).
(* K8: a job with pickups and deliveries whose demand vectors are all empty (MultiDimLoad of size 0 is unequal to itself) *)
Definition k8_empty_demand_vectors (d : doc) : bool :=
  existsb (fun j => nonempty (tasks (j_pickups j)) && nonempty (tasks (j_deliveries j))
                    && forallb (fun t => match tk_demand t with Some (_ :: _) => false | _ => true end)
                               (tasks (j_pickups j) ++ tasks (j_deliveries j))) (d_jobs d).

(* K9: no vehicle at all (no vehicle type has a vehicle id): Fleet::new asserts, no rule asks for a vehicle *)
Definition k9_no_vehicles (d : doc) : bool :=
  forallb (fun v => match v_ids v with [] => true | _ => false end) (d_vehicles d).

(* G2: required breaks of one shift (of a vehicle type that has a vehicle) that mix exact and offset times, or whose
   [earliest, latest] spans - without the duration E1303 adds - intersect: no documented rule is broken, the reader reports
   E0002 "cannot create transport costs / check fleet definition" *)
Definition req_kind_span (b : brk) : list (bool * (Z * Z)) :=
  match b with
  | BReqOff e l _ => [(true, (e, l))]
  | BReqExact e l _ => match tm_val e, tm_val l with Some a, Some b => [(false, (a, b))] | _, _ => [] end
  | _ => []
  end.
Definition g2_shift (s : shift) : bool :=
  let spans := flat_map req_kind_span (match sh_breaks s with Some bs => bs | None => [] end) in
  existsb (fun a => existsb (fun b => negb (Bool.eqb (fst a) (fst b))) spans) spans
  || negb (pairwise (fun a b => negb (overlap a b)) (map snd spans)).
Definition g2_required_breaks_of (d : doc) : bool :=
  existsb (fun v => nonempty (v_ids v) && existsb g2_shift (v_shifts v)) (d_vehicles d).

Definition known_table : list (Z * (doc -> bool)) :=
  [(7, k7_over8); (9, k9_no_vehicles); (22, g2_required_breaks_of)].   (* K6, K8: repaired in /repo, kept above for the regression theorems *)
Definition known (d : doc) : bool := existsb (fun kf => snd kf d) known_table.

(* ---------- entry points for the correspondence ---------- *)
Definition run_spec (d : doc) : list Z := map fst (filter (fun cf => snd cf d) spec_table).
Definition run_known (d : doc) : list Z := map fst (filter (fun kf => snd kf d) known_table).
