(* C04: the consistency invariant of a solution context, as an EXECUTABLE checker over a dumped state (`inv_b`) and as a
   declarative predicate (`Inv`); Proofs/ContextP.v shows `inv_b P d = [] <-> Inv P d`.
   A dump is what harness/src/bin/ops.rs prints after every search step:
     SolutionContext {required, ignored, unassigned, locked, routes, registry}   (construction/heuristics/context.rs)
   with every route rendered as Core `act`s (start and end included, job id -1) paired with the sub-job index.
   Feasibility of a tour is Spec/Feasible.v (step-by-step simulation), evaluated on the dumped activities with the dumped
   start departure; nothing cached is trusted.  No proofs in this file. *)
From VRP Require Import Base.Tac Model.Core Spec.Feasible Model.Eval.

(* ---------------- problem ---------------- *)
Record jobspec := mkJob { j_id : Z; j_parts : nat; j_compat : Z; j_group : Z }.   (* compat / group: 0 = none *)
Record vspec := mkVs {
  vs_id : Z; vs_veh : vehicle; vs_start : Z; vs_end : option Z; vs_shift_start : Z; vs_shift_latest : Z }.
Record lockspec := mkLock { l_actor : Z; l_jobs : list Z }.
Record pworld := mkPW {
  pw_n : Z; pw_dur : list Z; pw_dist : list Z;
  pw_vehicles : list vspec; pw_jobs : list jobspec; pw_locks : list lockspec }.
Definition pdur (P : pworld) := mat (pw_n P) (pw_dur P).
Definition pdist (P : pworld) := mat (pw_n P) (pw_dist P).

(* ---------------- dumped state ---------------- *)
Definition ract := (act * Z)%type.                      (* activity, index of the sub-job inside its multi job (0 for singles) *)
Record rdump := mkRoute { r_actor : Z; r_acts : list ract }.
Record dump := mkDump {
  d_routes : list rdump;
  d_required : list Z; d_ignored : list Z; d_unassigned : list Z; d_locked : list Z;
  d_avail : list Z }.                                   (* registry: available actors *)

Inductive violation :=
| VHomes (job : Z) (homes : nat)      (* a problem job with 0 or >1 homes *)
| VUnknownJob (job : Z)
| VDupPending                         (* required / ignored / unassigned lists with duplicates *)
| VRegistryDup                        (* two routes with the same actor / unknown actor *)
| VRegistryAvail (actor : Z)          (* availability of this actor does not match the routes *)
| VShape (actor : Z)                  (* start / end activities, departure outside the start window *)
| VTime (actor : Z)
| VLoad (actor : Z)
| VMulti (actor : Z) (job : Z)        (* sub-jobs missing, repeated or out of the permitted order *)
| VDemand (actor : Z)                 (* negative amounts / service time, delivery of a multi job before its pickup *)
| VCompat (actor : Z)
| VEmptyRoute (actor : Z)
| VGroup (group : Z)
| VLock (actor : Z).

(* ---------------- small list helpers ---------------- *)
Definition memz (j : Z) (l : list Z) : bool := existsb (Z.eqb j) l.
Fixpoint nodupb (l : list Z) : bool := match l with [] => true | x :: r => negb (memz x r) && nodupb r end.
Definition b2n (b : bool) : nat := if b then 1%nat else 0%nat.
Definition list_eqb (a b : list Z) : bool := if list_eq_dec Z.eq_dec a b then true else false.
Definition report {A} (ok : A -> bool) (v : A -> violation) (l : list A) : list violation :=
  flat_map (fun x => if ok x then [] else [v x]) l.
Definition flag (ok : bool) (v : violation) : list violation := if ok then [] else [v].

(* ---------------- per route ---------------- *)
Definition tour_of (r : rdump) : list act := map fst (r_acts r).
Definition job_ids (r : rdump) : list Z := filter (fun j => 0 <=? j) (map a_job (tour_of r)).
Definition serves (r : rdump) (j : Z) : bool := memz j (job_ids r).
Definition subs_of (r : rdump) (j : Z) : list Z := map snd (filter (fun x => a_job (fst x) =? j) (r_acts r)).
Definition zseq (n : nat) : list Z := map Z.of_nat (seq 0 n).

Definition find_vs (P : pworld) (a : Z) : option vspec := find (fun v => vs_id v =? a) (pw_vehicles P).
Definition find_job (P : pworld) (j : Z) : option jobspec := find (fun s => j_id s =? j) (pw_jobs P).

Definition is_start (vs : vspec) (a : act) : bool :=
  (a_job a =? -1) && (a_loc a =? vs_start vs) && (vs_shift_start vs <=? a_dep a) && (a_dep a <=? vs_shift_latest vs).
Definition is_end (vs : vspec) (e : Z) (a : act) : bool :=
  (a_job a =? -1) && (a_loc a =? e) && (a_twe a =? v_shift_end (vs_veh vs)).
Definition all_jobs (l : list act) : bool := forallb (fun a => 0 <=? a_job a) l.

(* start, jobs..., (end) *)
Definition shape_ok (vs : vspec) (t : list act) : bool :=
  match t with
  | [] => false
  | s :: r =>
    is_start vs s &&
    match vs_end vs with
    | None => all_jobs r
    | Some e => match rev r with [] => false | l :: m => is_end vs e l && all_jobs m end
    end
  end.

Definition multi_ok (P : pworld) (r : rdump) (j : Z) : bool :=
  match find_job P j with
  | Some s => list_eqb (subs_of r j) (zseq (j_parts s))
  | None => false
  end.

(* what job j has on board along the tour never goes negative, its static amounts are non-negative *)
Fixpoint balanced_b (j : Z) (o : Z) (t : list act) : bool :=
  match t with
  | [] => true
  | a :: r => if a_job a =? j
              then let o' := o + d_ps (a_dem a) + d_pd (a_dem a) - d_dd (a_dem a) in
                   (0 <=? d_ds (a_dem a)) && (0 <=? o') && balanced_b j o' r
              else balanced_b j o r
  end.
Definition demand_ok (r : rdump) : bool :=
  forallb (fun j => balanced_b j 0 (tour_of r)) (job_ids r) && forallb (fun a => 0 <=? a_svc a) (tour_of r).

Definition compat_of (P : pworld) (j : Z) : Z := match find_job P j with Some s => j_compat s | None => 0 end.
Definition group_of (P : pworld) (j : Z) : Z := match find_job P j with Some s => j_group s | None => 0 end.
Definition compats (P : pworld) (r : rdump) : list Z := filter (fun c => negb (c =? 0)) (map (compat_of P) (job_ids r)).
Definition compat_ok (P : pworld) (r : rdump) : bool :=
  match compats P r with [] => true | c :: l => forallb (Z.eqb c) l end.

(* every location is a location of the problem's matrix *)
Definition locs_ok (P : pworld) (t : list act) : bool := forallb (fun a => (0 <=? a_loc a) && (a_loc a <? pw_n P)) t.

Definition route0_viol (P : pworld) (vs : vspec) (r : rdump) : list violation :=
  let t := tour_of r in
  flag (shape_ok vs t && locs_ok P t) (VShape (r_actor r)) ++
  flag (time_feasible (pdur P) t) (VTime (r_actor r)) ++
  flag (load_feasible (v_cap (vs_veh vs)) t) (VLoad (r_actor r)) ++
  report (multi_ok P r) (VMulti (r_actor r)) (job_ids r) ++
  flag (demand_ok r) (VDemand (r_actor r)) ++
  flag (compat_ok P r) (VCompat (r_actor r)).

Definition route_viol (P : pworld) (r : rdump) : list violation :=
  match find_vs P (r_actor r) with
  | None => [VRegistryDup]
  | Some vs => route0_viol P vs r
  end.

Definition nonempty (r : rdump) : bool := match job_ids r with [] => false | _ => true end.

(* ---------------- whole solution ---------------- *)
Definition homes (d : dump) (j : Z) : nat :=
  (length (filter (fun r => serves r j) (d_routes d)) + b2n (memz j (d_unassigned d)) + b2n (memz j (d_required d))
   + b2n (memz j (d_ignored d)))%nat.

Definition known (P : pworld) (j : Z) : bool := match find_job P j with Some _ => true | None => false end.
Definition mentioned (d : dump) : list Z :=
  flat_map job_ids (d_routes d) ++ d_required d ++ d_ignored d ++ d_unassigned d ++ d_locked d.

Definition used (d : dump) : list Z := map r_actor (d_routes d).
Definition avail_ok (d : dump) (a : Z) : bool := Bool.eqb (memz a (d_avail d)) (negb (memz a (used d))).
Definition actor_known (P : pworld) (a : Z) : bool := match find_vs P a with Some _ => true | None => false end.

Definition groups_of (P : pworld) : list Z := filter (fun g => negb (g =? 0)) (map j_group (pw_jobs P)).
Definition has_group (P : pworld) (g : Z) (r : rdump) : bool := existsb (fun j => group_of P j =? g) (job_ids r).
Definition group_ok (P : pworld) (d : dump) (g : Z) : bool :=
  (length (filter (has_group P g) (d_routes d)) <=? 1)%nat.

(* the pinned jobs of a lock are flagged locked, served by the lock's vehicle, in the lock's order *)
Definition lock_ok (d : dump) (l : lockspec) : bool :=
  forallb (fun j => memz j (d_locked d)) (l_jobs l) &&
  existsb (fun r => (r_actor r =? l_actor l) && list_eqb (filter (fun j => memz j (l_jobs l)) (job_ids r)) (l_jobs l))
          (d_routes d).

(* everything but "no route without jobs" *)
Definition inv0_viol (P : pworld) (d : dump) : list violation :=
  report (fun s => Nat.eqb (homes d (j_id s)) 1) (fun s => VHomes (j_id s) (homes d (j_id s))) (pw_jobs P) ++
  report (known P) VUnknownJob (mentioned d) ++
  flag (nodupb (d_required d) && nodupb (d_ignored d) && nodupb (d_unassigned d)) VDupPending ++
  flag (nodupb (used d) && forallb (actor_known P) (used d ++ d_avail d)) VRegistryDup ++
  report (avail_ok d) VRegistryAvail (map vs_id (pw_vehicles P)) ++
  flat_map (route_viol P) (d_routes d) ++
  report (group_ok P d) VGroup (groups_of P) ++
  report (lock_ok d) (fun l => VLock (l_actor l)) (pw_locks P).

Definition empty_viol (d : dump) : list violation := report nonempty (fun r => VEmptyRoute (r_actor r)) (d_routes d).

Definition inv_b (P : pworld) (d : dump) : list violation := inv0_viol P d ++ empty_viol d.
Definition inv0_b (P : pworld) (d : dump) : bool := match inv0_viol P d with [] => true | _ => false end.

(* ---------------- declarative reading ---------------- *)
(* a tour that may be empty (the state between the removals of a ruin and `restore`) *)
Definition RouteOK0 (P : pworld) (r : rdump) : Prop :=
  exists vs, find_vs P (r_actor r) = Some vs /\
    shape_ok vs (tour_of r) = true /\ locs_ok P (tour_of r) = true /\
    feasible (pdur P) (vs_veh vs) (tour_of r) = true /\                      (* every window, the shift end, the capacity *)
    (forall j, In j (job_ids r) -> multi_ok P r j = true) /\                   (* multi jobs whole and in order *)
    demand_ok r = true /\
    compat_ok P r = true.

Record Inv0 (P : pworld) (d : dump) : Prop := {
  inv_homes : forall s, In s (pw_jobs P) -> homes d (j_id s) = 1%nat;          (* exactly one home per problem job *)
  inv_known : forall j, In j (mentioned d) -> known P j = true;
  inv_pending : NoDup (d_required d) /\ NoDup (d_ignored d) /\ NoDup (d_unassigned d);
  inv_actors : NoDup (used d) /\ (forall a, In a (used d ++ d_avail d) -> actor_known P a = true);
  inv_registry : forall v, In v (pw_vehicles P) ->
                   (In (vs_id v) (d_avail d) <-> ~ In (vs_id v) (used d));     (* bookkeeping matches the tours *)
  inv_routes : forall r, In r (d_routes d) -> RouteOK0 P r;
  inv_groups : forall g, In g (groups_of P) -> group_ok P d g = true;
  inv_locks : forall l, In l (pw_locks P) -> lock_ok d l = true              (* pinned jobs on their vehicle, in order *)
}.

Definition NoEmptyRoutes (d : dump) : Prop := forall r, In r (d_routes d) -> job_ids r <> [].
Definition Inv (P : pworld) (d : dump) : Prop := Inv0 P d /\ NoEmptyRoutes d.

(* entry point of the correspondence: the checker on every dumped state of a history *)
Definition run_inv (P : pworld) (ds : list dump) : list (list violation) := map (inv_b P) ds.
