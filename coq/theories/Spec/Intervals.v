(* Capacity PER RELOAD INTERVAL (C01 "vehicle load ... at every point of the tour (per reload interval)").
   A reload activity (a_job = RELOAD_JOB, no demand) starts a new interval.  Within one interval the independent simulation of
   Spec/Feasible.v applies: everything that is delivered in the interval from the depot / reload place (static delivery
   demand) is on board at the interval's start, static pickups stay on board until the interval's end, where they are
   unloaded; what a shipment picked up (dynamic demand) is CARRIED ACROSS the reload until its delivery.
   Written from the documentation (jobs.md: a pickup "brings it till the end of the tour (or next reload)"; vehicles.md: a
   reload is "a place where vehicle can load new deliveries and unload pickups"), not from capacity.rs.  No proofs here
   (Proofs/IntervalsP.v: the single-interval case IS Spec.Feasible.load_feasible; checker <-> declarative statement). *)
From VRP Require Import Base.Tac Model.Core Spec.Feasible.

Definition RELOAD_JOB : Z := -13.
Definition is_reload (a : act) : bool := a_job a =? RELOAD_JOB.

(* the tour cut in front of every reload activity: first interval = start .. , every further one begins with its reload *)
Fixpoint ivls (l : list act) : list (list act) :=
  match l with
  | [] => [[]]
  | a :: r => match ivls r with
              | iv :: rest => if is_reload a then [] :: (a :: iv) :: rest else (a :: iv) :: rest
              | [] => [[a]]
              end
  end.

Definition total_static_pickup (t : list act) : Z := fold_right (fun a acc => d_ps (a_dem a) + acc) 0 t.
(* load on board after the activities, starting from l *)
Fixpoint load_after (l : Z) (acts : list act) : Z :=
  match acts with [] => l | a :: r => load_after (l + d_change (a_dem a)) r end.

(* `carry` = what is still on board when the interval starts (picked-up shipments not yet delivered) *)
Fixpoint ivl_feasible (cap carry : Z) (iv : list (list act)) : bool :=
  match iv with
  | [] => true
  | i :: r => let l0 := carry + total_static_delivery i in
              (l0 <=? cap) && sim_load cap l0 i && ivl_feasible cap (load_after l0 i - total_static_pickup i) r
  end.
Definition ivl_load_feasible (cap : Z) (t : list act) : bool := ivl_feasible cap 0 (ivls t).

(* load on board after every activity (the reload activity itself: the freshly loaded vehicle) *)
Fixpoint ld_from (l : Z) (acts : list act) : list Z :=
  match acts with [] => [] | a :: r => let l' := l + d_change (a_dem a) in l' :: ld_from l' r end.
Fixpoint ivl_loads (carry : Z) (iv : list (list act)) : list Z :=
  match iv with
  | [] => []
  | i :: r => let l0 := carry + total_static_delivery i in
              ld_from l0 i ++ ivl_loads (load_after l0 i - total_static_pickup i) r
  end.
Definition ivl_loads_of (t : list act) : list Z := ivl_loads 0 (ivls t).

(* ---- the declarative statement *)
(* within one interval that starts with l0 on board, the load never exceeds the capacity: at the start and after every activity *)
Definition IntervalOk (cap l0 : Z) (i : list act) : Prop := forall pre post, i = pre ++ post -> load_after l0 pre <= cap.
Fixpoint IvlOk (cap carry : Z) (iv : list (list act)) : Prop :=
  match iv with
  | [] => True
  | i :: r => let l0 := carry + total_static_delivery i in
              IntervalOk cap l0 i /\ IvlOk cap (load_after l0 i - total_static_pickup i) r
  end.
