(* (S) The end-to-end checker, ROUND FOUR: the rules for the problem features the generator did not produce before
     1. job REPLACEMENT tasks and MIXED jobs (jobs.md "Replacement job", "Mixing job tasks")
     2. REQUIRED vehicle breaks (vehicles.md "breaks ... required"; tour-list.md: a stop without location)
     3. VICINITY CLUSTERING (clustering.md: parking, commute, the commuting / parking parts of the statistic)
   Every definition of Spec/Valid.v keeps its meaning: the rules here are ADDED to its groups (A accounting = C02, F feasibility
   = C01, R reproducibility = C03) as further functions with their own violation constructors; the plugins append them to the
   lists they evaluate.  Written from the format documentation (docs/src/concepts/pragmatic), not from the solver code.
   No proofs in this file (Proofs/ValidXP.v). *)
From VRP Require Import Base.Tac Model.Core Spec.Feasible Spec.Intervals Spec.Valid.

(* ================================================================== 1. replacement tasks, mixed jobs *)
(* A replacement task (activity kind 3) "requires a new good to be loaded at the beginning of the journey and old replaced one
   brought to journey's end": Valid.demand_of already gives it the static delivery AND the static pickup of its demand q, so
   the group-F capacity check (FCapacity, per reload interval) and the group-R load replay (RLoad) keep q on board during the
   whole trip.  What that means is pinned by `split_repl` below: the checker's verdict on a tour is the verdict on the tour in
   which every such activity is replaced by a static delivery of q directly followed by a static pickup of q (Proofs/ValidXP.v
   split_load_feasible, split_loads).

   Mixed jobs: "The order is not specified except pickups must be scheduled before any delivery, replacement or service":
   along a tour, once a delivery / replacement / service of a job was served, no pickup of the same job follows.  (For jobs
   with pickups and deliveries only this is Valid.order_b.) *)
Fixpoint mixed_order_b (acts : list fact) : bool :=
  match acts with
  | [] => true
  | a :: r => (if fa_kind a =? 0 then true else forallb (fun b => negb (fa_kind b =? 0)) r) && mixed_order_b r
  end.
Definition PickupsBeforeAll (acts : list fact) : Prop :=
  forall l1 a l2 b l3, acts = l1 ++ a :: l2 ++ b :: l3 -> fa_kind a <> 0 -> fa_kind b <> 0.

Definition mixed_viol (S : ssolution) (job : pjob) : list violation :=
  flat_map (fun t => if mixed_order_b (acts_of (pj_id job) t) then [] else [AJobMixedOrder (pj_id job)]) (sl_tours S).
Definition mixed_viols (P : pproblem) (S : ssolution) : list violation := flat_map (mixed_viol S) (pr_jobs P).
Definition MixedOrdered (P : pproblem) (S : ssolution) : Prop :=
  forall job t, In job (pr_jobs P) -> In t (sl_tours S) -> PickupsBeforeAll (acts_of (pj_id job) t).

(* ---- what "simultaneous delivery and pickup of the same demand" means for the load *)
Definition with_dem (a : act) (d : demand) : act := mkAct (a_job a) (a_loc a) (a_svc a) (a_tws a) (a_twe a) d (a_arr a) (a_dep a).
(* the demand of a replacement activity: a static delivery and a static pickup, nothing dynamic *)
Definition is_repl_act (a : act) : bool :=
  negb (is_reload a) && (0 <? d_ps (a_dem a)) && (0 <? d_ds (a_dem a)) && (d_pd (a_dem a) =? 0) && (d_dd (a_dem a) =? 0).
(* ... is replaced by: unload the new good (static delivery), then load the old one (static pickup) *)
Definition split_act (a : act) : list act :=
  if is_repl_act a then [with_dem a (mkDemand 0 0 (d_ds (a_dem a)) 0); with_dem a (mkDemand (d_ps (a_dem a)) 0 0 0)] else [a].
Definition split_repl (t : list act) : list act := flat_map split_act t.

(* ================================================================== 2. required breaks *)
(* vehicles.md: a REQUIRED break has a `time` - "a fixed time or time offset interval when the break should happen specified by
   earliest and latest": "the break will be assigned not earlier, and not later than the range specified" - and a `duration`; it
   "is guaranteed to be assigned".  It has no place: in the documents it is a break activity (with its own time) inside the stop
   during which it is taken, or a stop of its own WITHOUT location ("omitted in case of the stop for a required break which
   during traveling", tour-list.md).  Meaning used here: during the reported interval of such a break the vehicle neither
   drives nor works.  The breaks the document reports (their intervals) are part of the reported visiting order; that they are
   the breaks the shift defines is rule ARequiredBreak, that none is missing FRequiredBreakMissing, that nothing else happens in
   them FReservedTime, and the whole schedule is replayed around them (group R).

   The extra data of a problem that Valid.pproblem has no field for (the existing records are left as they are): *)
Record rbreak := mkRBreak { rq_earliest : Z; rq_latest : Z; rq_dur : Z;
                            rq_offset : bool (* earliest / latest are seconds after the tour's departure *) }.
(* plan.clustering (vicinity; the routing profile of the vehicles, serving policy `original`): visiting = return?, parking time,
   threshold duration / distance, the ids of the jobs that must not be clustered (filtering.excludeJobIds) *)
Record ccfg := mkCCfg { cc_return : bool; cc_parking : Z; cc_thr_dur : Z; cc_thr_dist : Z; cc_excluded : list Z }.
(* xp_rbreaks: (vehicle type id, shift index) -> the required breaks of that shift, document order *)
Record xproblem := mkXProblem { xp_rbreaks : list (Z * nat * list rbreak); xp_cluster : option ccfg }.
Definition X0 : xproblem := mkXProblem [] None.
(* the parts of a solution document Valid.ssolution has no field for: per tour the reported `parking` of every stop, the `commute`
   of every flattened activity (None: no commute field; Some (forward, backward): the field, each direction optional), the
   commuting / parking part of the tour statistic; and the two parts of the overall statistic *)
Record commute := mkCommute { cm_loc : Z; cm_dist : Z; cm_t0 : Z; cm_t1 : Z }.
Record xtour := mkXTour { xt_parking : list (option (Z * Z)); xt_commute : list (option (option commute * option commute));
                          xt_commuting : Z; xt_parked : Z }.
Record xsolution := mkXSolution { xs_tours : list xtour; xs_commuting : Z; xs_parked : Z }.
Definition XS0 : xsolution := mkXSolution [] 0 0.
Definition xt0 : xtour := mkXTour [] [] 0 0.
Definition xt_of (XS : xsolution) (k : Z) : xtour := nth_z (xs_tours XS) k xt0.
Definition some_b {A} (o : option A) : bool := match o with Some _ => true | None => false end.
(* a tour with a clustered stop: some stop reports parking or some activity carries a commute field *)
Definition is_cluster_tour (xt : xtour) : bool := existsb some_b (xt_parking xt) || existsb some_b (xt_commute xt).
Definition TRANSIT : Z := -2.         (* ss_loc of a stop without location *)

Definition rbreaks_of (X : xproblem) (t : stour) : list rbreak :=
  match find (fun x => (fst (fst x) =? to_type t) && (snd (fst x) =? to_shift t)%nat) (xp_rbreaks X) with
  | Some x => snd x
  | None => []
  end.
Definition has_rb (X : xproblem) (t : stour) : bool := match rbreaks_of X t with [] => false | _ => true end.

(* ---- time with reserved intervals B (sorted by start, pairwise disjoint, of positive length: iv_ok) *)
(* the part of [s, t] that lies inside the intervals, and outside *)
Definition busy (B : list (Z * Z)) (s t : Z) : Z :=
  sumz (map (fun be => Z.max 0 (Z.min (snd be) t - Z.max (fst be) s)) B).
Definition net (B : list (Z * Z)) (s t : Z) : Z := t - s - busy B s t.
Definition interior (B : list (Z * Z)) (t : Z) : bool := existsb (fun be => (fst be <? t) && (t <? snd be)) B.
(* the clock: something that starts at s and needs d units of time outside the intervals is over at `adv B s d` - the first
   moment that is not strictly inside an interval and has d units outside the intervals behind it *)
Fixpoint adv (B : list (Z * Z)) (s d : Z) : Z :=
  match B with
  | [] => s + d
  | (b, e) :: r => if e <=? s then adv r s d
                   else if b <? s then adv r e d
                   else if s + d <=? b then s + d
                   else adv r e (d - (b - s))
  end.
Fixpoint iv_ok (B : list (Z * Z)) : bool :=
  match B with
  | [] => true
  | (b, e) :: r => (b <? e) && (match r with [] => true | (b', _) :: _ => e <=? b' end) && iv_ok r
  end.
Fixpoint insert_iv (x : Z * Z) (l : list (Z * Z)) : list (Z * Z) :=
  match l with [] => [x] | y :: r => if fst x <=? fst y then x :: l else y :: insert_iv x r end.
Definition sort_iv (l : list (Z * Z)) : list (Z * Z) := fold_right insert_iv [] l.
(* what adv computes (Proofs/ValidXP.v adv_spec, adv_unique) *)
Definition AdvSpec (B : list (Z * Z)) (s d t : Z) : Prop :=
  s <= t /\ net B s t = d /\ interior B t = false
  /\ forall t', s <= t' -> t' < t -> net B s t' < d \/ interior B t' = true.

(* ---- the tour without its required-break activities and transit stops; its reported break intervals *)
Definition is_break_sact (a : sact) : bool := sa_kind a =? 12.
Definition strip_stop (s : sstop) : sstop :=
  mkSStop (ss_loc s) (ss_arr s) (ss_dep s) (ss_load s) (ss_dist s) (filter (fun a => negb (is_break_sact a)) (ss_acts s)).
(* a stop that consists of break activities only (a transit stop) disappears; a stop without activities stays (and is reported) *)
Definition keep_stop (s : sstop) : bool := match ss_acts s with [] => true | l => negb (forallb is_break_sact l) end.
Fixpoint filter_mask {A} (m : list bool) (l : list A) : list A :=
  match m, l with
  | b :: m', x :: l' => if b then x :: filter_mask m' l' else filter_mask m' l'
  | _, _ => []
  end.
Definition strip_tour (t : stour) : stour :=
  let m := map keep_stop (to_stops t) in
  mkSTour (to_vehicle t) (to_type t) (to_shift t) (map strip_stop (filter_mask m (to_stops t))) (to_stat t)
          (map (filter_mask m) (to_xload t)).
Definition xstrip (X : xproblem) (t : stour) : stour := if has_rb X t then strip_tour t else t.
Definition strip_sol (X : xproblem) (S : ssolution) : ssolution :=
  mkSSolution (sl_stat S) (map (xstrip X) (sl_tours S)) (sl_unassigned S).
Definition tour_breaks (t : stour) : list (Z * Z) := sort_iv (map (fun a => (fa_start a, fa_end a)) (break_acts t)).
Definition xbreaks (X : xproblem) (t : stour) : list (Z * Z) := if has_rb X t then tour_breaks t else [].
(* per kept stop: the end of the last break activity taken at that stop (None: no break there) *)
Definition stop_break_end (s : sstop) : option Z :=
  match map (fun a => match sa_time a with Some t => snd t | None => ss_dep s end) (filter is_break_sact (ss_acts s)) with
  | [] => None
  | x :: r => Some (fold_right Z.max x r)
  end.
Definition tour_bends (t : stour) : list (option Z) := map stop_break_end (filter keep_stop (to_stops t)).
Definition xbends (X : xproblem) (t : stour) : list (option Z) := if has_rb X t then tour_bends t else [].

(* ---- A: every break activity is a DISTINCT required break of the tour's shift, and the reported breaks do not overlap *)
Definition abs_rb (dep : Z) (b : rbreak) : rbreak :=
  if rq_offset b then mkRBreak (rq_earliest b + dep) (rq_latest b + dep) (rq_dur b) false else b.
Definition rb_fits (dep : Z) (a : fact) (b : rbreak) : bool :=
  (fa_end a - fa_start a =? rq_dur b) && (rq_earliest (abs_rb dep b) <=? fa_start a) && (fa_start a <=? rq_latest (abs_rb dep b)).
Definition rbreaks_ok (X : xproblem) (t : stour) : bool :=
  if has_rb X t
  then gassign_b (rb_fits (tour_dep (flat_tour t))) (break_acts t) (rbreaks_of X t) && iv_ok (tour_breaks t)
  else true.
Definition RBreaksDefined (X : xproblem) (t : stour) : Prop :=
  has_rb X t = true ->
  GAssign (rb_fits (tour_dep (flat_tour t))) (break_acts t) (rbreaks_of X t) /\ iv_ok (tour_breaks t) = true.
Definition rbreak_viols (X : xproblem) (S : ssolution) : list violation :=
  concat (mapi (fun k t => if rbreaks_ok X t then [] else [ARequiredBreak k]) (sl_tours S)).

(* ---- F: no required break is missing: one whose latest start lies inside the tour's time span - at or after the departure,
        before the end of the tour's last activity - is taken *)
Definition tour_fin (l : list fact) : Z := match rev l with e :: _ => fa_end e | [] => 0 end.
Definition rb_due (dep fin : Z) (b : rbreak) : bool := (dep <=? rq_latest (abs_rb dep b)) && (rq_latest (abs_rb dep b) <? fin).
Definition rb_taken (dep : Z) (acts : list fact) (b : rbreak) : bool := existsb (fun a => rb_fits dep a b) acts.
Definition rb_missing (X : xproblem) (t : stour) : bool :=
  let l := flat_tour t in
  existsb (fun b => rb_due (tour_dep l) (tour_fin l) b && negb (rb_taken (tour_dep l) (break_acts t) b)) (rbreaks_of X t).
Definition RBreaksTaken (X : xproblem) (t : stour) : Prop :=
  forall b, In b (rbreaks_of X t) -> rb_due (tour_dep (flat_tour t)) (tour_fin (flat_tour t)) b = true ->
            exists a, In a (break_acts t) /\ rb_fits (tour_dep (flat_tour t)) a b = true.
Definition rb_missing_viols (X : xproblem) (S : ssolution) : list violation :=
  concat (mapi (fun k t => if rb_missing X t then [FRequiredBreakMissing k] else []) (sl_tours S)).

(* ---- rebuilding a tour whose activities may contain reserved time: an activity is attributed to the place whose duration is
        the time between its reported start and end that lies OUTSIDE the breaks (B = [] : Valid.rebuild, Proofs/ValidXP.v) *)
Definition shrink (B : list (Z * Z)) (a : fact) : fact :=
  mkFAct (fa_job a) (fa_kind a) (fa_loc a) (fa_arr a) (fa_start a) (fa_start a + net B (fa_start a) (fa_end a)) (fa_tag a) (fa_stop a).
Definition rebuild_rb (P : pproblem) (B : list (Z * Z)) (t : stour) : option rebuilt :=
  match shift_of P t with
  | None => None
  | Some (vt, sh) =>
    let has_end := match sh_end sh with Some _ => true | None => false end in
    match split_tour has_end (flat_tour t) with
    | None => None
    | Some (d, js, e) =>
      match match_all P (abs_shift (fa_end d) sh) (map (shrink B) js) with
      | None => None
      | Some ms =>
        let ms' := combine js (map snd ms) in
        let start := mkAct (-1) (fa_loc d) 0 (sh_earliest sh) (sh_latest sh) dzero (fa_start d) (fa_end d) in
        let fin := match e, sh_end sh with
                   | Some x, Some (_, latest) => [mkAct (-1) (fa_loc x) 0 NEGT latest dzero (fa_arr x) (fa_end x)]
                   | _, _ => []
                   end in
        Some (mkRebuilt vt sh (vehicle_of vt sh) d ms' e (start :: map (fun am => act_of_match (fst am) (snd am)) ms' ++ fin))
      end
    end
  end.

(* ---- the schedule around the reserved intervals: driving and working only outside them *)
Fixpoint sim_time_rb (dur : Z -> Z -> Z) (B : list (Z * Z)) (loc dep : Z) (acts : list act) : bool :=
  match acts with
  | [] => true
  | a :: r => let arr := adv B dep (dur loc (a_loc a)) in
              let st := Z.max arr (a_tws a) in
              (* in time; and when a break delays the start of the work, the delayed start is still inside the window *)
              (arr <=? a_twe a) && (if adv B st 0 =? st then true else adv B st 0 <=? a_twe a)
              && sim_time_rb dur B (a_loc a) (adv B st (a_svc a)) r
  end.
Definition time_feasible_rb (dur : Z -> Z -> Z) (B : list (Z * Z)) (t : list act) : bool :=
  match t with [] => false | s :: r => sim_time_rb dur B (a_loc s) (a_dep s) r end.
Fixpoint replay_from_rb (dur : Z -> Z -> Z) (B : list (Z * Z)) (loc dep : Z) (acts : list act) : list (Z * Z) :=
  match acts with
  | [] => []
  | a :: r => let arr := adv B dep (dur loc (a_loc a)) in
              let d := adv B (Z.max arr (a_tws a)) (a_svc a) in
              (arr, d) :: replay_from_rb dur B (a_loc a) d r
  end.
Definition replay_rb (dur : Z -> Z -> Z) (B : list (Z * Z)) (t : list act) : list (Z * Z) :=
  match t with [] => [] | s :: r => (a_arr s, a_dep s) :: replay_from_rb dur B (a_loc s) (a_dep s) r end.
Definition replay_duration_rb (dur : Z -> Z -> Z) (B : list (Z * Z)) (t : list act) : Z :=
  match t with [] => 0 | s :: _ => snd (last (replay_rb dur B t) (0, 0)) - a_dep s end.
(* waiting = the time between arrival and start of work that is not break time (statistic.md: the times are a SPLIT of the duration) *)
Definition replay_waiting_rb (dur : Z -> Z -> Z) (B : list (Z * Z)) (t : list act) : Z :=
  sumz (map (fun ax => net B (fst (snd ax)) (Z.max (fst (snd ax)) (a_tws (fst ax)))) (tl (combine t (replay_rb dur B t)))).
Definition iv_total (B : list (Z * Z)) : Z := sumz (map (fun be => snd be - fst be) B).

(* ---- F: Valid.feasible_viol with that clock *)
Definition feasible_viol_rb (P : pproblem) (B : list (Z * Z)) (k : Z) (t : stour) : list violation :=
  match rebuild_rb P B t with
  | None => [FNoTour k]
  | Some r =>
    let acts := rb_acts r in
    let vt := rb_vt r in let sh := rb_shift r in
    (if time_feasible_rb (pdur P) B acts then [] else [FInfeasible k])
    ++ (if ivl_load_feasible (v_cap (rb_veh r)) acts then [] else [FCapacity k])
    ++ flat_map (fun am => let '(job, _, _, _) := snd am in if skills_ok vt job then [] else [FSkills k (pj_id job)]) (rb_jobs r)
    ++ (if le_opt (tour_legs (pdist P) acts) (vt_maxdist vt) then [] else [FMaxDistance k])
    ++ (if le_opt (replay_duration_rb (pdur P) B acts) (vt_maxdur vt) then [] else [FMaxDuration k])
    ++ (if le_opt (Z.of_nat (length (rb_jobs r))) (vt_toursize vt) then [] else [FTourSize k])
    ++ (if (fa_loc (rb_dep r) =? sh_start sh) && (sh_earliest sh <=? fa_end (rb_dep r)) && (fa_end (rb_dep r) <=? sh_latest sh)
        then [] else [FShiftStart k])
    ++ (match rb_arr r, sh_end sh with
        | Some e, Some (l, _) => if fa_loc e =? l then [] else [FEndLocation k]
        | _, _ => []
        end)
  end.

(* ---- F: the reserved time is used for nothing else: every activity has its place's duration, every leg its travel time,
        OUTSIDE the breaks (l: the activities behind the departure with the duration of the place used) *)
Fixpoint reserved_from (dur : Z -> Z -> Z) (B : list (Z * Z)) (k i ploc pend : Z) (l : list (fact * Z)) : list violation :=
  match l with
  | [] => []
  | (a, d) :: r =>
    (if (dur ploc (fa_loc a) <=? net B pend (fa_arr a)) && (d <=? net B (fa_start a) (fa_end a)) then [] else [FReservedTime k i])
    ++ reserved_from dur B k (i + 1) (fa_loc a) (fa_end a) r
  end.
Definition rb_facts (r : rebuilt) : list (fact * Z) :=
  map (fun am => let '(_, _, p, _) := snd am in (fst am, pl_dur p)) (rb_jobs r)
  ++ (match rb_arr r with Some e => [(e, 0)] | None => [] end).
Definition reserved_viol (P : pproblem) (B : list (Z * Z)) (k : Z) (t : stour) : list violation :=
  match rebuild_rb P B t with
  | None => []                             (* FNoTour says so *)
  | Some r => reserved_from (pdur P) B k 1 (fa_loc (rb_dep r)) (fa_end (rb_dep r)) (rb_facts r)
  end.
Definition ReservedRespected (dur : Z -> Z -> Z) (B : list (Z * Z)) (d0 : fact) (l : list (fact * Z)) : Prop :=
  forall l1 a b l2, (d0, 0) :: l = l1 ++ a :: b :: l2 ->
    dur (fa_loc (fst a)) (fa_loc (fst b)) <= net B (fa_end (fst a)) (fa_arr (fst b))
    /\ snd b <= net B (fa_start (fst b)) (fa_end (fst b)).

(* ---- R: Valid.replay_tour with that clock.  A stop is left when its last activity AND the breaks taken at it are over.
        Two moments between which there is nothing but break time are the same moment for the comparison: an activity that is
        over exactly when a break begins may be reported as over at the break's beginning or at its end (the documents do the
        latter); without breaks `same_time [] x y` is x = y *)
Definition same_time (B : list (Z * Z)) (x y : Z) : bool := net B (Z.min x y) (Z.max x y) =? 0.
Definition act_checks_rb (B : list (Z * Z)) (k : Z) (facts : list fact) (rep : list (Z * Z)) : list violation :=
  concat (mapi (fun i fr => let '(f, (arr, dep)) := fr in
                            (if (i =? 0) || same_time B (fa_arr f) arr then [] else [RArrival k i])
                            ++ (if same_time B (fa_end f) dep then [] else [RDeparture k i]))
               (combine facts rep)).
Definition later (x : Z) (b : option Z) : Z := match b with Some y => Z.max x y | None => x end.
Definition stop_checks_rb (B : list (Z * Z)) (k : Z) (t : stour) (facts : list fact) (rep : list (Z * Z)) (loads cum : list Z)
                          (bends : list (option Z)) : list violation :=
  concat (mapi (fun s st =>
    (if forallb (fun a => match sa_loc a with Some l => l =? ss_loc st | None => true end) (ss_acts st) then [] else [RActLocation k s])
    ++ match last_index_of_stop s facts 0 None with
       | None => [RStopDeparture k s]
       | Some i =>
         (if same_time B (ss_dep st) (later (snd (nth_z rep i (0, 0))) (nth_z bends s None)) then [] else [RStopDeparture k s])
         ++ (if ss_load st =? nth_z loads i 0 then [] else [RLoad k s])
         ++ (if ss_dist st =? nth_z cum i 0 then [] else [RDistance k s])
       end) (to_stops t)).
(* fin: the moment the tour is over.  When the reported end of the last activity and the replayed one have nothing but break time
   between them (a break that begins exactly when the last activity is over: the documents count it into the tour), the reported
   one is taken; without breaks that is the replayed end *)
Definition tour_over (B : list (Z * Z)) (reported replayed : Z) : Z := if same_time B reported replayed then reported else replayed.
Definition replay_stat_rb (P : pproblem) (B : list (Z * Z)) (vt : pvtype) (acts : list act) (fin : Z) : sstat :=
  let dist := tour_legs (pdist P) acts in
  let dur := match acts with [] => 0 | s :: _ => fin - a_dep s end in
  mkSStat (vt_fixed vt + dist * vt_cd vt + dur * vt_ct vt) dist dur
          (tour_legs (pdur P) acts) (replay_serving acts - replay_break acts) (replay_waiting_rb (pdur P) B acts)
          (replay_break acts + iv_total B).
Definition replay_tour_rb (P : pproblem) (B : list (Z * Z)) (bends : list (option Z)) (k : Z) (t : stour) : list violation :=
  match rebuild_rb P B t with
  | None => [RNoReplay k]
  | Some r =>
    let acts := rb_acts r in
    let has_end := match rb_arr r with Some _ => true | None => false end in
    let facts := rb_dep r :: map fst (rb_jobs r) ++ (match rb_arr r with Some e => [e] | None => [] end) in
    let rep := replay_rb (pdur P) B acts in
    act_checks_rb B k facts rep
    ++ stop_checks_rb B k t facts rep (replay_loads_x has_end acts) (replay_cumdist (pdist P) acts) bends
    ++ tag_checks k (combine (map (shrink B) (map fst (rb_jobs r))) (map snd (rb_jobs r)))
    ++ stat_checks k (replay_stat_rb P B (rb_vt r) acts
                                     (tour_over B (fa_end (last facts (rb_dep r))) (snd (last rep (0, 0))))) (to_stat t)
  end.

(* ---- capacity in the further dimensions and the task order, on the tour rebuilt around the breaks *)
Definition dim_tour_viol_rb (P : pproblem) (B : list (Z * Z)) (k : Z) (t : stour) (d : nat) : list violation * list violation :=
  let dz := Z.of_nat d + 1 in
  match rebuild_rb (dim_problem d P) B (dim_tour d t) with
  | None => ([], [])
  | Some r =>
    let has_end := match rb_arr r with Some _ => true | None => false end in
    let facts := rb_dep r :: map fst (rb_jobs r) ++ (match rb_arr r with Some e => [e] | None => [] end) in
    ((if ivl_load_feasible (v_cap (rb_veh r)) (rb_acts r) then [] else [FCapacityDim k dz]),
     load_checks k dz (dim_tour d t) facts (replay_loads_x has_end (rb_acts r)))
  end.
Definition order_viol_rb (P : pproblem) (B : list (Z * Z)) (k : Z) (t : stour) : list violation :=
  match rebuild_rb (order_problem P) B t with
  | None => []
  | Some r => if sorted_b (order_seq r) then [] else [FOrder k]
  end.

(* ================================================================== 3. vicinity clustering *)
(* clustering.md: close jobs are served from one stop; the stop reports `parking`, every clustered activity a `commute` with a
   `forward` / `backward` part (location before / after the visit, distance, time) - an empty one for the job at the stop's own
   location; "commute distance is not included into statistics"; the statistic has a commuting and a parking part.
   Fragment: clustering.profile = the vehicles' routing profile without scale (a commute takes the matrix duration / distance),
   serving policy `original`.  For a tour WITH a clustered stop (is_cluster_tour) the rules are evaluated on the document itself:
     A  the per-job accounting of Valid.accounted_b as it is (clustered activities carry their own location) + AClusterMember
     F  capacity per reload interval / further dimensions / skills / task order on the activities attributed by kind and location
        (`light_match`), limits on the stop-to-stop distance and the tour duration, tour size with the clustered activities of a
        stop counted as one, shift start / end, every service start inside a time window of a place used (FClusterWindow),
        cluster members within the threshold of the stop's location (FClusterThreshold)
     R  the driver's walk through every stop (parking, then activity by activity: forward commute from where he is, service,
        backward commute; RParking / RCommute / RStopDeparture), the legs between consecutive stop locations (RStopArrival,
        RDistance), the loads, and the statistic: distance / driving = the legs between stops, commuting / parking = the reported
        commutes / parkings, serving / break = the reported activity lengths, waiting = the rest of the duration (the times are a
        split), cost = fixed + distance*cd + duration*ct
   Not replayed for such a tour: the arrival-by-arrival simulation of the time windows and the place tags. *)
Definition items_of (xt : xtour) (t : stour) : list (Z * (fact * option (option commute * option commute))) :=
  mapi (fun i a => (i, (a, nth_z (xt_commute xt) i None))) (flat_tour t).

(* ---- A *)
Definition clusterable (P : pproblem) (cfg : option ccfg) (a : fact) : bool :=
  is_job_kind (fa_kind a) &&
  match find_job P (fa_job a), cfg with
  | Some job, Some c => (length (pj_tasks job) =? 1)%nat && negb (zmem (pj_id job) (cc_excluded c))
  | _, _ => false
  end.
Definition member_viol (P : pproblem) (X : xproblem) (xt : xtour) (k : Z) (t : stour) : list violation :=
  flat_map (fun it => if some_b (snd (snd it)) && negb (clusterable P (xp_cluster X) (fst (snd it))) then [AClusterMember k (fst it)] else [])
           (items_of xt t).
Definition member_viols (P : pproblem) (X : xproblem) (XS : xsolution) (S : ssolution) : list violation :=
  concat (mapi (fun k t => member_viol P X (xt_of XS k) k t) (sl_tours S)).
Definition ClusterMembersOk (P : pproblem) (X : xproblem) (xt : xtour) (t : stour) : Prop :=
  forall it, In it (items_of xt t) -> snd (snd it) <> None -> clusterable P (xp_cluster X) (fst (snd it)) = true.

(* ---- the activities of a tour attributed by kind and location only (no reported time enters): enough for loads, skills, order *)
Definition light_match (P : pproblem) (sh : pshift) (a : fact) : option (pjob * ptask) :=
  if fa_kind a =? 13 then (if fa_job a =? RELOAD_JOB then Some (reload_job sh, mkPTask 13 (sh_reloads sh) 0) else None)
  else if fa_kind a =? 12 then (if fa_job a =? BREAK_JOB then Some (break_job sh a, mkPTask 12 [] 0) else None)
  else match find_job P (fa_job a) with
       | Some job => match find (fun tk => task_matches tk a) (pj_tasks job) with Some tk => Some (job, tk) | None => None end
       | None => None
       end.
Fixpoint light_all (P : pproblem) (sh : pshift) (l : list fact) : option (list (fact * (pjob * ptask))) :=
  match l with
  | [] => Some []
  | a :: r => match light_match P sh a, light_all P sh r with
              | Some m, Some ms => Some ((a, m) :: ms)
              | _, _ => None
              end
  end.
Definition light_act (am : fact * (pjob * ptask)) : act :=
  let '(a, (job, tk)) := am in
  mkAct (fa_job a) (fa_loc a) (fa_end a - fa_start a) NEGT INF (demand_of job tk) (fa_arr a) (fa_end a).
Record lrebuilt := mkLRebuilt { lr_vt : pvtype; lr_shift : pshift; lr_dep : fact; lr_jobs : list (fact * (pjob * ptask));
                                lr_arr : option fact; lr_acts : list act }.
Definition light_rebuild (P : pproblem) (t : stour) : option lrebuilt :=
  match shift_of P t with
  | None => None
  | Some (vt, sh) =>
    let has_end := match sh_end sh with Some _ => true | None => false end in
    match split_tour has_end (flat_tour t) with
    | None => None
    | Some (d, js, e) =>
      match light_all P sh js with
      | None => None
      | Some ms =>
        let start := mkAct (-1) (fa_loc d) 0 (sh_earliest sh) (sh_latest sh) dzero (fa_start d) (fa_end d) in
        let fin := match e with Some x => [mkAct (-1) (fa_loc x) 0 NEGT INF dzero (fa_arr x) (fa_end x)] | None => [] end in
        Some (mkLRebuilt vt sh d ms e (start :: map light_act ms ++ fin))
      end
    end
  end.

(* ---- the legs between consecutive stops (each judged on the reported departure / distance of the stop before it) *)
Fixpoint outer_from (P : pproblem) (k s ploc pdep pcum : Z) (stops : list sstop) : list violation :=
  match stops with
  | [] => []
  | st :: r => (if ss_arr st =? pdep + pdur P ploc (ss_loc st) then [] else [RStopArrival k s])
               ++ (if ss_dist st =? pcum + pdist P ploc (ss_loc st) then [] else [RDistance k s])
               ++ outer_from P k (s + 1) (ss_loc st) (ss_dep st) (ss_dist st) r
  end.
Definition outer_viol (P : pproblem) (k : Z) (t : stour) : list violation :=
  match to_stops t with
  | [] => []
  | st :: r => (if ss_dist st =? 0 then [] else [RDistance k 0]) ++ outer_from P k 1 (ss_loc st) (ss_dep st) (ss_dist st) r
  end.
Definition LegsReplayed (P : pproblem) (t : stour) : Prop :=
  (forall st r, to_stops t = st :: r -> ss_dist st = 0)
  /\ forall l1 a b l2, to_stops t = l1 ++ a :: b :: l2 ->
       ss_arr b = ss_dep a + pdur P (ss_loc a) (ss_loc b) /\ ss_dist b = ss_dist a + pdist P (ss_loc a) (ss_loc b).
Fixpoint stop_legs (m : Z -> Z -> Z) (ploc : Z) (stops : list sstop) : Z :=
  match stops with [] => 0 | st :: r => m ploc (ss_loc st) + stop_legs m (ss_loc st) r end.
Definition tour_stop_legs (m : Z -> Z -> Z) (t : stour) : Z :=
  match to_stops t with [] => 0 | st :: r => stop_legs m (ss_loc st) r end.

(* ---- the driver's walk through one stop: he stands at `loc`, free at `time` *)
(* two location indices that are the same point for the routing data (distance and duration 0 both ways) are not told apart *)
Definition same_place (P : pproblem) (a b : Z) : bool :=
  (a =? b) || ((pdist P a b =? 0) && (pdur P a b =? 0) && (pdist P b a =? 0) && (pdur P b a =? 0)).
Definition fw_ok (P : pproblem) (loc time : Z) (a : fact) (c : commute) : bool :=
  same_place P (cm_loc c) loc && (cm_t0 c =? time) && (cm_dist c =? pdist P loc (fa_loc a))
  && (cm_t1 c - cm_t0 c =? pdur P loc (fa_loc a)) && (cm_t1 c <=? fa_start a).
Definition bw_ok (P : pproblem) (a : fact) (c : commute) : bool :=
  (cm_t0 c =? fa_end a) && (cm_dist c =? pdist P (fa_loc a) (cm_loc c)) && (cm_t1 c - cm_t0 c =? pdur P (fa_loc a) (cm_loc c)).
Fixpoint walk (P : pproblem) (ret : bool) (k loc time : Z) (items : list (Z * (fact * option (option commute * option commute))))
  : list violation * (Z * Z) :=
  match items with
  | [] => ([], (loc, time))
  | (i, (a, oc)) :: r =>
    let fw := match oc with Some (f, _) => f | None => None end in
    let bw := match oc with Some (_, b) => b | None => None end in
    let v1 := match fw with
              | Some c => if fw_ok P loc time a c && (if ret then some_b bw else true) then [] else [RCommute k i]
              | None => if (same_place P (fa_loc a) loc || (pdist P loc (fa_loc a) =? 0)) && (time <=? fa_start a) then [] else [RCommute k i]
              end in
    let v2 := match bw with Some c => if bw_ok P a c then [] else [RCommute k i] | None => [] end in
    let next := match bw with Some c => (cm_loc c, cm_t1 c) | None => (fa_loc a, fa_end a) end in
    let '(vs, fin) := walk P ret k (fst next) (snd next) r in
    (v1 ++ v2 ++ vs, fin)
  end.
Definition stop_walk (P : pproblem) (cfg : option ccfg) (xt : xtour) (k : Z) (t : stour) (s : Z) (st : sstop) : list violation :=
  let park := nth_z (xt_parking xt) s None in
  let items := filter (fun it => fa_stop (fst (snd it)) =? s) (items_of xt t) in
  (match park, cfg with
   | Some (p0, p1), Some c => if (p0 =? ss_arr st) && (p1 - p0 =? cc_parking c) then [] else [RParking k s]
   | Some _, None => [RParking k s]
   | None, _ => []
   end)
  ++ (let '(vs, fin) := walk P (match cfg with Some c => cc_return c | None => false end) k (ss_loc st)
                             (match park with Some (_, p1) => p1 | None => ss_arr st end) items in
      vs ++ (if same_place P (fst fin) (ss_loc st) && (snd fin =? ss_dep st) then [] else [RStopDeparture k s])).

(* ---- R for a tour with clustered stops *)
Definition commute_time (oc : option (option commute * option commute)) : Z :=
  match oc with
  | Some (f, b) => (match f with Some c => cm_t1 c - cm_t0 c | None => 0 end) + (match b with Some c => cm_t1 c - cm_t0 c | None => 0 end)
  | None => 0
  end.
Definition park_time (p : option (Z * Z)) : Z := match p with Some (a, b) => b - a | None => 0 end.
Definition cluster_stat (P : pproblem) (vt : pvtype) (xt : xtour) (t : stour) : sstat * (Z * Z) :=
  let l := flat_tour t in
  let dist := tour_stop_legs (pdist P) t in
  let drive := tour_stop_legs (pdur P) t in
  let dur := ss_dep (last (to_stops t) (mkSStop 0 0 0 0 0 [])) - tour_dep l in       (* until the driver is back at the last stop *)
  let serve := sumz (map (fun a => if is_job_kind (fa_kind a) || (fa_kind a =? 13) then fa_end a - fa_start a else 0) l) in
  let brk := sumz (map (fun a => if fa_kind a =? 12 then fa_end a - fa_start a else 0) l) in
  let comm := sumz (map commute_time (xt_commute xt)) in
  let park := sumz (map park_time (xt_parking xt)) in
  (mkSStat (vt_fixed vt + dist * vt_cd vt + dur * vt_ct vt) dist dur drive serve (dur - drive - serve - brk - comm - park) brk,
   (comm, park)).
Definition replay_tour_cl (P : pproblem) (X : xproblem) (xt : xtour) (k : Z) (t : stour) : list violation :=
  match light_rebuild P t with
  | None => [RNoReplay k]
  | Some r =>
    let has_end := match lr_arr r with Some _ => true | None => false end in
    let facts := lr_dep r :: map fst (lr_jobs r) ++ (match lr_arr r with Some e => [e] | None => [] end) in
    let '(st, (comm, park)) := cluster_stat P (lr_vt r) xt t in
    concat (mapi (stop_walk P (xp_cluster X) xt k t) (to_stops t))
    ++ outer_viol P k t
    ++ concat (mapi (fun s stp => match last_index_of_stop s facts 0 None with
                                  | None => [RStopDeparture k s]
                                  | Some i => if ss_load stp =? nth_z (replay_loads_x has_end (lr_acts r)) i 0 then [] else [RLoad k s]
                                  end) (to_stops t))
    ++ stat_checks k st (to_stat t)
    ++ (if xt_commuting xt =? comm then [] else [RStatCommuting k])
    ++ (if xt_parked xt =? park then [] else [RStatParking k])
  end.

(* ---- F for a tour with clustered stops *)
Definition window_ok (tk : ptask) (a : fact) : bool :=
  existsb (fun p => (pl_loc p =? fa_loc a) && existsb (fun w => (fst w <=? fa_start a) && (fa_start a <=? snd w)) (pl_tws p)) (tk_places tk).
Definition window_viol (k : Z) (r : lrebuilt) : list violation :=
  concat (mapi (fun i am => if is_job_kind (fa_kind (fst am)) && negb (window_ok (snd (snd am)) (fst am)) then [FClusterWindow k (i + 1)] else [])
               (lr_jobs r)).
Definition WindowsKept (r : lrebuilt) : Prop :=
  forall am, In am (lr_jobs r) -> is_job_kind (fa_kind (fst am)) = true -> window_ok (snd (snd am)) (fst am) = true.
Definition near (P : pproblem) (c : ccfg) (centre loc : Z) : bool :=
  (pdur P centre loc <=? cc_thr_dur c) && (pdist P centre loc <=? cc_thr_dist c)
  && (pdur P loc centre <=? cc_thr_dur c) && (pdist P loc centre <=? cc_thr_dist c).
Definition threshold_viol (P : pproblem) (X : xproblem) (xt : xtour) (k : Z) (t : stour) : list violation :=
  match xp_cluster X with
  | None => []
  | Some c =>
    flat_map (fun it => let a := fst (snd it) in
                        let centre := ss_loc (nth_z (to_stops t) (fa_stop a) (mkSStop (fa_loc a) 0 0 0 0 [])) in
                        if some_b (snd (snd it)) && negb (fa_loc a =? centre) && negb (near P c centre (fa_loc a))
                        then [FClusterThreshold k (fst it)] else [])
             (items_of xt t)
  end.
Definition WithinThreshold (P : pproblem) (c : ccfg) (xt : xtour) (t : stour) : Prop :=
  forall it, In it (items_of xt t) -> snd (snd it) <> None ->
    let a := fst (snd it) in
    let centre := ss_loc (nth_z (to_stops t) (fa_stop a) (mkSStop (fa_loc a) 0 0 0 0 [])) in
    fa_loc a <> centre -> near P c centre (fa_loc a) = true.
(* the clustered activities of one stop count as one activity (vehicles.md, tourSize) *)
Definition cluster_size (xt : xtour) (t : stour) : Z :=
  let its := filter (fun it => is_mid_kind (fa_kind (fst (snd it)))) (items_of xt t) in
  Z.of_nat (length (filter (fun it => negb (some_b (snd (snd it)))) its))
  + Z.of_nat (length (nodup Z.eq_dec (map (fun it => fa_stop (fst (snd it))) (filter (fun it => some_b (snd (snd it))) its)))).
Definition feasible_viol_cl (P : pproblem) (X : xproblem) (xt : xtour) (k : Z) (t : stour) : list violation :=
  match light_rebuild P t with
  | None => [FNoTour k]
  | Some r =>
    let vt := lr_vt r in let sh := lr_shift r in
    let l := flat_tour t in
    (match lr_arr r, sh_end sh with
     | Some e, Some (_, latest) => if fa_arr e <=? latest then [] else [FInfeasible k]
     | _, _ => []
     end)
    ++ (if ivl_load_feasible (vt_cap vt) (lr_acts r) then [] else [FCapacity k])
    ++ flat_map (fun am => let '(job, _) := snd am in if skills_ok vt job then [] else [FSkills k (pj_id job)]) (lr_jobs r)
    ++ (if le_opt (tour_stop_legs (pdist P) t) (vt_maxdist vt) then [] else [FMaxDistance k])
    ++ (if le_opt (ss_dep (last (to_stops t) (mkSStop 0 0 0 0 0 [])) - tour_dep l) (vt_maxdur vt) then [] else [FMaxDuration k])
    ++ (if le_opt (cluster_size xt t) (vt_toursize vt) then [] else [FTourSize k])
    ++ (if (fa_loc (lr_dep r) =? sh_start sh) && (sh_earliest sh <=? fa_end (lr_dep r)) && (fa_end (lr_dep r) <=? sh_latest sh)
        then [] else [FShiftStart k])
    ++ (match lr_arr r, sh_end sh with
        | Some e, Some (loc, _) => if fa_loc e =? loc then [] else [FEndLocation k]
        | _, _ => []
        end)
    ++ window_viol k r
    ++ threshold_viol P X xt k t
  end.
Definition dim_viol_cl (P : pproblem) (k : Z) (t : stour) (d : nat) : list violation * list violation :=
  let dz := Z.of_nat d + 1 in
  match light_rebuild (dim_problem d P) (dim_tour d t) with
  | None => ([], [])
  | Some r =>
    let has_end := match lr_arr r with Some _ => true | None => false end in
    let facts := lr_dep r :: map fst (lr_jobs r) ++ (match lr_arr r with Some e => [e] | None => [] end) in
    ((if ivl_load_feasible (vt_cap (lr_vt r)) (lr_acts r) then [] else [FCapacityDim k dz]),
     load_checks k dz (dim_tour d t) facts (replay_loads_x has_end (lr_acts r)))
  end.
Definition order_viol_cl (P : pproblem) (k : Z) (t : stour) : list violation :=
  match light_rebuild (order_problem P) t with
  | None => []
  | Some r => if sorted_b (map (fun am => okey (tk_demand (snd (snd am)))) (filter (fun am => is_job_kind (fa_kind (fst am))) (lr_jobs r)))
              then [] else [FOrder k]
  end.

(* ================================================================== the added groups *)
(* A (C02): Valid.accounted_b on the solution without its required-break activities / transit stops, which are accounted for by
   rbreak_viols; the rule for mixed jobs; the rule for cluster members *)
Definition accounted4 (X : xproblem) (XS : xsolution) (P : pproblem) (S : ssolution) : list violation :=
  accounted_b P (strip_sol X S) ++ rbreak_viols X S ++ mixed_viols P S ++ member_viols P X XS S.
(* F (C01): for X0 / XS0 the first line is Valid.feasible_viols and the second Valid.xfeasible_viols (Proofs/ValidXP.v) *)
Definition feasible4 (X : xproblem) (XS : xsolution) (P : pproblem) (S : ssolution) : list violation :=
  concat (mapi (fun k t => if is_cluster_tour (xt_of XS k) then feasible_viol_cl P X (xt_of XS k) k t
                           else feasible_viol_rb P (xbreaks X t) k (xstrip X t)) (sl_tours S))
  ++ (let S' := strip_sol X S in
      compat_viols P S' ++ group_viols P S' ++ reach_viols P S'
      ++ concat (mapi (fun k t => flat_map (fun d => fst (if is_cluster_tour (xt_of XS k) then dim_viol_cl P k t d
                                                          else dim_tour_viol_rb P (xbreaks X t) k (xstrip X t) d)) (seq 0 (xdims P))) (sl_tours S))
      ++ concat (mapi (fun k t => if is_cluster_tour (xt_of XS k) then order_viol_cl P k t
                                  else order_viol_rb P (xbreaks X t) k (xstrip X t)) (sl_tours S))
      ++ break_place_viols P S')
  ++ rb_missing_viols X S
  ++ concat (mapi (fun k t => if has_rb X t then reserved_viol P (xbreaks X t) k (xstrip X t) else []) (sl_tours S)).
(* R (C03) *)
Definition xtotal_checks (XS : xsolution) : list violation :=
  (if xs_commuting XS =? sumz (map xt_commuting (xs_tours XS)) then [] else [RTotal 7])
  ++ (if xs_parked XS =? sumz (map xt_parked (xs_tours XS)) then [] else [RTotal 8]).
Definition replay4 (X : xproblem) (XS : xsolution) (P : pproblem) (S : ssolution) : list violation :=
  concat (mapi (fun k t => if is_cluster_tour (xt_of XS k) then replay_tour_cl P X (xt_of XS k) k t
                           else replay_tour_rb P (xbreaks X t) (xbends X t) k (xstrip X t)) (sl_tours S)) ++ total_checks S
  ++ concat (mapi (fun k t => flat_map (fun d => snd (if is_cluster_tour (xt_of XS k) then dim_viol_cl P k t d
                                                      else dim_tour_viol_rb P (xbreaks X t) k (xstrip X t) d)) (seq 0 (xdims P))) (sl_tours S))
  ++ xtotal_checks XS.
Definition valid4 (X : xproblem) (XS : xsolution) (P : pproblem) (S : ssolution) : list violation :=
  precond_viol P ++ accounted4 X XS P S ++ feasible4 X XS P S ++ replay4 X XS P S.
