(* (S) The end-to-end checker, ROUND FOUR: the rules for the problem features the generator did not produce before
     1. job REPLACEMENT tasks and MIXED jobs (jobs.md "Replacement job", "Mixing job tasks")
     2. REQUIRED vehicle breaks (vehicles.md "breaks ... required"; tour-list.md: a stop without location)
   Every definition of Spec/Valid.v keeps its meaning: the rules here are ADDED to its groups (A accounting = C02, F feasibility
   = C01, R reproducibility = C03) as further functions with their own violation constructors; the plugins append them to the
   lists they evaluate.  Written from the format documentation (docs/src/concepts/pragmatic), not from the solver code.
   No proofs in this file (Proofs/ValidXP.v). *)
From VRP Require Import Base.Tac Model.Core Spec.Feasible Spec.Intervals Spec.Valid.

(* ================================================================== 1. replacement tasks, mixed jobs *)
(* A replacement task (activity kind 3) "requires a new good to be loaded at the beginning of the journey and old replaced one
   brought to journey's end": Valid.demand_of already gives it the static delivery AND the static pickup of its demand q, so
   the group-F capacity check (FCapacity, per reload interval) and the group-R load replay (RLoad) keep q on board during the
   whole trip.  What that means is pinned by `split_repl` below: the checker's verdict on a tour is the verdict on the tour in
   which every such activity is replaced by a static delivery of q directly followed by a static pickup of q (Proofs/ValidXP.v
   split_load_feasible, split_loads).

   Mixed jobs: "The order is not specified except pickups must be scheduled before any delivery, replacement or service":
   along a tour, once a delivery / replacement / service of a job was served, no pickup of the same job follows.  (For jobs
   with pickups and deliveries only this is Valid.order_b.) *)
Fixpoint mixed_order_b (acts : list fact) : bool :=
  match acts with
  | [] => true
  | a :: r => (if fa_kind a =? 0 then true else forallb (fun b => negb (fa_kind b =? 0)) r) && mixed_order_b r
  end.
Definition PickupsBeforeAll (acts : list fact) : Prop :=
  forall l1 a l2 b l3, acts = l1 ++ a :: l2 ++ b :: l3 -> fa_kind a <> 0 -> fa_kind b <> 0.

Definition mixed_viol (S : ssolution) (job : pjob) : list violation :=
  flat_map (fun t => if mixed_order_b (acts_of (pj_id job) t) then [] else [AJobMixedOrder (pj_id job)]) (sl_tours S).
Definition mixed_viols (P : pproblem) (S : ssolution) : list violation := flat_map (mixed_viol S) (pr_jobs P).
Definition MixedOrdered (P : pproblem) (S : ssolution) : Prop :=
  forall job t, In job (pr_jobs P) -> In t (sl_tours S) -> PickupsBeforeAll (acts_of (pj_id job) t).

(* ---- what "simultaneous delivery and pickup of the same demand" means for the load *)
Definition with_dem (a : act) (d : demand) : act := mkAct (a_job a) (a_loc a) (a_svc a) (a_tws a) (a_twe a) d (a_arr a) (a_dep a).
(* the demand of a replacement activity: a static delivery and a static pickup, nothing dynamic *)
Definition is_repl_act (a : act) : bool :=
  negb (is_reload a) && (0 <? d_ps (a_dem a)) && (0 <? d_ds (a_dem a)) && (d_pd (a_dem a) =? 0) && (d_dd (a_dem a) =? 0).
(* ... is replaced by: unload the new good (static delivery), then load the old one (static pickup) *)
Definition split_act (a : act) : list act :=
  if is_repl_act a then [with_dem a (mkDemand 0 0 (d_ds (a_dem a)) 0); with_dem a (mkDemand (d_ps (a_dem a)) 0 0 0)] else [a].
Definition split_repl (t : list act) : list act := flat_map split_act t.

(* ================================================================== 2. required breaks *)
(* vehicles.md: a REQUIRED break has a `time` - "a fixed time or time offset interval when the break should happen specified by
   earliest and latest": "the break will be assigned not earlier, and not later than the range specified" - and a `duration`; it
   "is guaranteed to be assigned".  It has no place: in the documents it is a break activity (with its own time) inside the stop
   during which it is taken, or a stop of its own WITHOUT location ("omitted in case of the stop for a required break which
   during traveling", tour-list.md).  Meaning used here: during the reported interval of such a break the vehicle neither
   drives nor works.  The breaks the document reports (their intervals) are part of the reported visiting order; that they are
   the breaks the shift defines is rule ARequiredBreak, that none is missing FRequiredBreakMissing, that nothing else happens in
   them FReservedTime, and the whole schedule is replayed around them (group R).

   The extra data of a problem that Valid.pproblem has no field for (the existing records are left as they are): *)
Record rbreak := mkRBreak { rq_earliest : Z; rq_latest : Z; rq_dur : Z;
                            rq_offset : bool (* earliest / latest are seconds after the tour's departure *) }.
(* xp_rbreaks: (vehicle type id, shift index) -> the required breaks of that shift, document order *)
Record xproblem := mkXProblem { xp_rbreaks : list (Z * nat * list rbreak) }.
Definition X0 : xproblem := mkXProblem [].
Definition TRANSIT : Z := -2.         (* ss_loc of a stop without location *)

Definition rbreaks_of (X : xproblem) (t : stour) : list rbreak :=
  match find (fun x => (fst (fst x) =? to_type t) && (snd (fst x) =? to_shift t)%nat) (xp_rbreaks X) with
  | Some x => snd x
  | None => []
  end.
Definition has_rb (X : xproblem) (t : stour) : bool := match rbreaks_of X t with [] => false | _ => true end.

(* ---- time with reserved intervals B (sorted by start, pairwise disjoint, of positive length: iv_ok) *)
(* the part of [s, t] that lies inside the intervals, and outside *)
Definition busy (B : list (Z * Z)) (s t : Z) : Z :=
  sumz (map (fun be => Z.max 0 (Z.min (snd be) t - Z.max (fst be) s)) B).
Definition net (B : list (Z * Z)) (s t : Z) : Z := t - s - busy B s t.
Definition interior (B : list (Z * Z)) (t : Z) : bool := existsb (fun be => (fst be <? t) && (t <? snd be)) B.
(* the clock: something that starts at s and needs d units of time outside the intervals is over at `adv B s d` - the first
   moment that is not strictly inside an interval and has d units outside the intervals behind it *)
Fixpoint adv (B : list (Z * Z)) (s d : Z) : Z :=
  match B with
  | [] => s + d
  | (b, e) :: r => if e <=? s then adv r s d
                   else if b <? s then adv r e d
                   else if s + d <=? b then s + d
                   else adv r e (d - (b - s))
  end.
Fixpoint iv_ok (B : list (Z * Z)) : bool :=
  match B with
  | [] => true
  | (b, e) :: r => (b <? e) && (match r with [] => true | (b', _) :: _ => e <=? b' end) && iv_ok r
  end.
Fixpoint insert_iv (x : Z * Z) (l : list (Z * Z)) : list (Z * Z) :=
  match l with [] => [x] | y :: r => if fst x <=? fst y then x :: l else y :: insert_iv x r end.
Definition sort_iv (l : list (Z * Z)) : list (Z * Z) := fold_right insert_iv [] l.
(* what adv computes (Proofs/ValidXP.v adv_spec, adv_unique) *)
Definition AdvSpec (B : list (Z * Z)) (s d t : Z) : Prop :=
  s <= t /\ net B s t = d /\ interior B t = false
  /\ forall t', s <= t' -> t' < t -> net B s t' < d \/ interior B t' = true.

(* ---- the tour without its required-break activities and transit stops; its reported break intervals *)
Definition is_break_sact (a : sact) : bool := sa_kind a =? 12.
Definition strip_stop (s : sstop) : sstop :=
  mkSStop (ss_loc s) (ss_arr s) (ss_dep s) (ss_load s) (ss_dist s) (filter (fun a => negb (is_break_sact a)) (ss_acts s)).
(* a stop that consists of break activities only (a transit stop) disappears; a stop without activities stays (and is reported) *)
Definition keep_stop (s : sstop) : bool := match ss_acts s with [] => true | l => negb (forallb is_break_sact l) end.
Fixpoint filter_mask {A} (m : list bool) (l : list A) : list A :=
  match m, l with
  | b :: m', x :: l' => if b then x :: filter_mask m' l' else filter_mask m' l'
  | _, _ => []
  end.
Definition strip_tour (t : stour) : stour :=
  let m := map keep_stop (to_stops t) in
  mkSTour (to_vehicle t) (to_type t) (to_shift t) (map strip_stop (filter_mask m (to_stops t))) (to_stat t)
          (map (filter_mask m) (to_xload t)).
Definition xstrip (X : xproblem) (t : stour) : stour := if has_rb X t then strip_tour t else t.
Definition strip_sol (X : xproblem) (S : ssolution) : ssolution :=
  mkSSolution (sl_stat S) (map (xstrip X) (sl_tours S)) (sl_unassigned S).
Definition tour_breaks (t : stour) : list (Z * Z) := sort_iv (map (fun a => (fa_start a, fa_end a)) (break_acts t)).
Definition xbreaks (X : xproblem) (t : stour) : list (Z * Z) := if has_rb X t then tour_breaks t else [].
(* per kept stop: the end of the last break activity taken at that stop (None: no break there) *)
Definition stop_break_end (s : sstop) : option Z :=
  match map (fun a => match sa_time a with Some t => snd t | None => ss_dep s end) (filter is_break_sact (ss_acts s)) with
  | [] => None
  | x :: r => Some (fold_right Z.max x r)
  end.
Definition tour_bends (t : stour) : list (option Z) := map stop_break_end (filter keep_stop (to_stops t)).
Definition xbends (X : xproblem) (t : stour) : list (option Z) := if has_rb X t then tour_bends t else [].

(* ---- A: every break activity is a DISTINCT required break of the tour's shift, and the reported breaks do not overlap *)
Definition abs_rb (dep : Z) (b : rbreak) : rbreak :=
  if rq_offset b then mkRBreak (rq_earliest b + dep) (rq_latest b + dep) (rq_dur b) false else b.
Definition rb_fits (dep : Z) (a : fact) (b : rbreak) : bool :=
  (fa_end a - fa_start a =? rq_dur b) && (rq_earliest (abs_rb dep b) <=? fa_start a) && (fa_start a <=? rq_latest (abs_rb dep b)).
Definition rbreaks_ok (X : xproblem) (t : stour) : bool :=
  if has_rb X t
  then gassign_b (rb_fits (tour_dep (flat_tour t))) (break_acts t) (rbreaks_of X t) && iv_ok (tour_breaks t)
  else true.
Definition RBreaksDefined (X : xproblem) (t : stour) : Prop :=
  has_rb X t = true ->
  GAssign (rb_fits (tour_dep (flat_tour t))) (break_acts t) (rbreaks_of X t) /\ iv_ok (tour_breaks t) = true.
Definition rbreak_viols (X : xproblem) (S : ssolution) : list violation :=
  concat (mapi (fun k t => if rbreaks_ok X t then [] else [ARequiredBreak k]) (sl_tours S)).

(* ---- F: no required break is missing: one whose latest start lies inside the tour's time span - at or after the departure,
        before the end of the tour's last activity - is taken *)
Definition tour_fin (l : list fact) : Z := match rev l with e :: _ => fa_end e | [] => 0 end.
Definition rb_due (dep fin : Z) (b : rbreak) : bool := (dep <=? rq_latest (abs_rb dep b)) && (rq_latest (abs_rb dep b) <? fin).
Definition rb_taken (dep : Z) (acts : list fact) (b : rbreak) : bool := existsb (fun a => rb_fits dep a b) acts.
Definition rb_missing (X : xproblem) (t : stour) : bool :=
  let l := flat_tour t in
  existsb (fun b => rb_due (tour_dep l) (tour_fin l) b && negb (rb_taken (tour_dep l) (break_acts t) b)) (rbreaks_of X t).
Definition RBreaksTaken (X : xproblem) (t : stour) : Prop :=
  forall b, In b (rbreaks_of X t) -> rb_due (tour_dep (flat_tour t)) (tour_fin (flat_tour t)) b = true ->
            exists a, In a (break_acts t) /\ rb_fits (tour_dep (flat_tour t)) a b = true.
Definition rb_missing_viols (X : xproblem) (S : ssolution) : list violation :=
  concat (mapi (fun k t => if rb_missing X t then [FRequiredBreakMissing k] else []) (sl_tours S)).

(* ---- rebuilding a tour whose activities may contain reserved time: an activity is attributed to the place whose duration is
        the time between its reported start and end that lies OUTSIDE the breaks (B = [] : Valid.rebuild, Proofs/ValidXP.v) *)
Definition shrink (B : list (Z * Z)) (a : fact) : fact :=
  mkFAct (fa_job a) (fa_kind a) (fa_loc a) (fa_arr a) (fa_start a) (fa_start a + net B (fa_start a) (fa_end a)) (fa_tag a) (fa_stop a).
Definition rebuild_rb (P : pproblem) (B : list (Z * Z)) (t : stour) : option rebuilt :=
  match shift_of P t with
  | None => None
  | Some (vt, sh) =>
    let has_end := match sh_end sh with Some _ => true | None => false end in
    match split_tour has_end (flat_tour t) with
    | None => None
    | Some (d, js, e) =>
      match match_all P (abs_shift (fa_end d) sh) (map (shrink B) js) with
      | None => None
      | Some ms =>
        let ms' := combine js (map snd ms) in
        let start := mkAct (-1) (fa_loc d) 0 (sh_earliest sh) (sh_latest sh) dzero (fa_start d) (fa_end d) in
        let fin := match e, sh_end sh with
                   | Some x, Some (_, latest) => [mkAct (-1) (fa_loc x) 0 NEGT latest dzero (fa_arr x) (fa_end x)]
                   | _, _ => []
                   end in
        Some (mkRebuilt vt sh (vehicle_of vt sh) d ms' e (start :: map (fun am => act_of_match (fst am) (snd am)) ms' ++ fin))
      end
    end
  end.

(* ---- the schedule around the reserved intervals: driving and working only outside them *)
Fixpoint sim_time_rb (dur : Z -> Z -> Z) (B : list (Z * Z)) (loc dep : Z) (acts : list act) : bool :=
  match acts with
  | [] => true
  | a :: r => let arr := adv B dep (dur loc (a_loc a)) in
              let st := Z.max arr (a_tws a) in
              (* in time; and when a break delays the start of the work, the delayed start is still inside the window *)
              (arr <=? a_twe a) && (if adv B st 0 =? st then true else adv B st 0 <=? a_twe a)
              && sim_time_rb dur B (a_loc a) (adv B st (a_svc a)) r
  end.
Definition time_feasible_rb (dur : Z -> Z -> Z) (B : list (Z * Z)) (t : list act) : bool :=
  match t with [] => false | s :: r => sim_time_rb dur B (a_loc s) (a_dep s) r end.
Fixpoint replay_from_rb (dur : Z -> Z -> Z) (B : list (Z * Z)) (loc dep : Z) (acts : list act) : list (Z * Z) :=
  match acts with
  | [] => []
  | a :: r => let arr := adv B dep (dur loc (a_loc a)) in
              let d := adv B (Z.max arr (a_tws a)) (a_svc a) in
              (arr, d) :: replay_from_rb dur B (a_loc a) d r
  end.
Definition replay_rb (dur : Z -> Z -> Z) (B : list (Z * Z)) (t : list act) : list (Z * Z) :=
  match t with [] => [] | s :: r => (a_arr s, a_dep s) :: replay_from_rb dur B (a_loc s) (a_dep s) r end.
Definition replay_duration_rb (dur : Z -> Z -> Z) (B : list (Z * Z)) (t : list act) : Z :=
  match t with [] => 0 | s :: _ => snd (last (replay_rb dur B t) (0, 0)) - a_dep s end.
(* waiting = the time between arrival and start of work that is not break time (statistic.md: the times are a SPLIT of the duration) *)
Definition replay_waiting_rb (dur : Z -> Z -> Z) (B : list (Z * Z)) (t : list act) : Z :=
  sumz (map (fun ax => net B (fst (snd ax)) (Z.max (fst (snd ax)) (a_tws (fst ax)))) (tl (combine t (replay_rb dur B t)))).
Definition iv_total (B : list (Z * Z)) : Z := sumz (map (fun be => snd be - fst be) B).

(* ---- F: Valid.feasible_viol with that clock *)
Definition feasible_viol_rb (P : pproblem) (B : list (Z * Z)) (k : Z) (t : stour) : list violation :=
  match rebuild_rb P B t with
  | None => [FNoTour k]
  | Some r =>
    let acts := rb_acts r in
    let vt := rb_vt r in let sh := rb_shift r in
    (if time_feasible_rb (pdur P) B acts then [] else [FInfeasible k])
    ++ (if ivl_load_feasible (v_cap (rb_veh r)) acts then [] else [FCapacity k])
    ++ flat_map (fun am => let '(job, _, _, _) := snd am in if skills_ok vt job then [] else [FSkills k (pj_id job)]) (rb_jobs r)
    ++ (if le_opt (tour_legs (pdist P) acts) (vt_maxdist vt) then [] else [FMaxDistance k])
    ++ (if le_opt (replay_duration_rb (pdur P) B acts) (vt_maxdur vt) then [] else [FMaxDuration k])
    ++ (if le_opt (Z.of_nat (length (rb_jobs r))) (vt_toursize vt) then [] else [FTourSize k])
    ++ (if (fa_loc (rb_dep r) =? sh_start sh) && (sh_earliest sh <=? fa_end (rb_dep r)) && (fa_end (rb_dep r) <=? sh_latest sh)
        then [] else [FShiftStart k])
    ++ (match rb_arr r, sh_end sh with
        | Some e, Some (l, _) => if fa_loc e =? l then [] else [FEndLocation k]
        | _, _ => []
        end)
  end.

(* ---- F: the reserved time is used for nothing else: every activity has its place's duration, every leg its travel time,
        OUTSIDE the breaks (l: the activities behind the departure with the duration of the place used) *)
Fixpoint reserved_from (dur : Z -> Z -> Z) (B : list (Z * Z)) (k i ploc pend : Z) (l : list (fact * Z)) : list violation :=
  match l with
  | [] => []
  | (a, d) :: r =>
    (if (dur ploc (fa_loc a) <=? net B pend (fa_arr a)) && (d <=? net B (fa_start a) (fa_end a)) then [] else [FReservedTime k i])
    ++ reserved_from dur B k (i + 1) (fa_loc a) (fa_end a) r
  end.
Definition rb_facts (r : rebuilt) : list (fact * Z) :=
  map (fun am => let '(_, _, p, _) := snd am in (fst am, pl_dur p)) (rb_jobs r)
  ++ (match rb_arr r with Some e => [(e, 0)] | None => [] end).
Definition reserved_viol (P : pproblem) (B : list (Z * Z)) (k : Z) (t : stour) : list violation :=
  match rebuild_rb P B t with
  | None => []                             (* FNoTour says so *)
  | Some r => reserved_from (pdur P) B k 1 (fa_loc (rb_dep r)) (fa_end (rb_dep r)) (rb_facts r)
  end.
Definition ReservedRespected (dur : Z -> Z -> Z) (B : list (Z * Z)) (d0 : fact) (l : list (fact * Z)) : Prop :=
  forall l1 a b l2, (d0, 0) :: l = l1 ++ a :: b :: l2 ->
    dur (fa_loc (fst a)) (fa_loc (fst b)) <= net B (fa_end (fst a)) (fa_arr (fst b))
    /\ snd b <= net B (fa_start (fst b)) (fa_end (fst b)).

(* ---- R: Valid.replay_tour with that clock.  A stop is left when its last activity AND the breaks taken at it are over.
        Two moments between which there is nothing but break time are the same moment for the comparison: an activity that is
        over exactly when a break begins may be reported as over at the break's beginning or at its end (the documents do the
        latter); without breaks `same_time [] x y` is x = y *)
Definition same_time (B : list (Z * Z)) (x y : Z) : bool := net B (Z.min x y) (Z.max x y) =? 0.
Definition act_checks_rb (B : list (Z * Z)) (k : Z) (facts : list fact) (rep : list (Z * Z)) : list violation :=
  concat (mapi (fun i fr => let '(f, (arr, dep)) := fr in
                            (if (i =? 0) || same_time B (fa_arr f) arr then [] else [RArrival k i])
                            ++ (if same_time B (fa_end f) dep then [] else [RDeparture k i]))
               (combine facts rep)).
Definition later (x : Z) (b : option Z) : Z := match b with Some y => Z.max x y | None => x end.
Definition stop_checks_rb (B : list (Z * Z)) (k : Z) (t : stour) (facts : list fact) (rep : list (Z * Z)) (loads cum : list Z)
                          (bends : list (option Z)) : list violation :=
  concat (mapi (fun s st =>
    (if forallb (fun a => match sa_loc a with Some l => l =? ss_loc st | None => true end) (ss_acts st) then [] else [RActLocation k s])
    ++ match last_index_of_stop s facts 0 None with
       | None => [RStopDeparture k s]
       | Some i =>
         (if same_time B (ss_dep st) (later (snd (nth_z rep i (0, 0))) (nth_z bends s None)) then [] else [RStopDeparture k s])
         ++ (if ss_load st =? nth_z loads i 0 then [] else [RLoad k s])
         ++ (if ss_dist st =? nth_z cum i 0 then [] else [RDistance k s])
       end) (to_stops t)).
Definition replay_stat_rb (P : pproblem) (B : list (Z * Z)) (vt : pvtype) (acts : list act) : sstat :=
  let dist := tour_legs (pdist P) acts in
  let dur := replay_duration_rb (pdur P) B acts in
  mkSStat (vt_fixed vt + dist * vt_cd vt + dur * vt_ct vt) dist dur
          (tour_legs (pdur P) acts) (replay_serving acts - replay_break acts) (replay_waiting_rb (pdur P) B acts)
          (replay_break acts + iv_total B).
Definition replay_tour_rb (P : pproblem) (B : list (Z * Z)) (bends : list (option Z)) (k : Z) (t : stour) : list violation :=
  match rebuild_rb P B t with
  | None => [RNoReplay k]
  | Some r =>
    let acts := rb_acts r in
    let has_end := match rb_arr r with Some _ => true | None => false end in
    let facts := rb_dep r :: map fst (rb_jobs r) ++ (match rb_arr r with Some e => [e] | None => [] end) in
    let rep := replay_rb (pdur P) B acts in
    act_checks_rb B k facts rep
    ++ stop_checks_rb B k t facts rep (replay_loads_x has_end acts) (replay_cumdist (pdist P) acts) bends
    ++ tag_checks k (combine (map (shrink B) (map fst (rb_jobs r))) (map snd (rb_jobs r)))
    ++ stat_checks k (replay_stat_rb P B (rb_vt r) acts) (to_stat t)
  end.

(* ---- capacity in the further dimensions and the task order, on the tour rebuilt around the breaks *)
Definition dim_tour_viol_rb (P : pproblem) (B : list (Z * Z)) (k : Z) (t : stour) (d : nat) : list violation * list violation :=
  let dz := Z.of_nat d + 1 in
  match rebuild_rb (dim_problem d P) B (dim_tour d t) with
  | None => ([], [])
  | Some r =>
    let has_end := match rb_arr r with Some _ => true | None => false end in
    let facts := rb_dep r :: map fst (rb_jobs r) ++ (match rb_arr r with Some e => [e] | None => [] end) in
    ((if ivl_load_feasible (v_cap (rb_veh r)) (rb_acts r) then [] else [FCapacityDim k dz]),
     load_checks k dz (dim_tour d t) facts (replay_loads_x has_end (rb_acts r)))
  end.
Definition order_viol_rb (P : pproblem) (B : list (Z * Z)) (k : Z) (t : stour) : list violation :=
  match rebuild_rb (order_problem P) B t with
  | None => []
  | Some r => if sorted_b (order_seq r) then [] else [FOrder k]
  end.

(* ================================================================== the added groups *)
(* A (C02): Valid.accounted_b on the solution without its required-break activities / transit stops, which are accounted for by
   rbreak_viols; the rule for mixed jobs *)
Definition accounted4 (X : xproblem) (P : pproblem) (S : ssolution) : list violation :=
  accounted_b P (strip_sol X S) ++ rbreak_viols X S ++ mixed_viols P S.
(* F (C01): for X0 the first line is Valid.feasible_viols and the second Valid.xfeasible_viols (Proofs/ValidXP.v) *)
Definition feasible4 (X : xproblem) (P : pproblem) (S : ssolution) : list violation :=
  concat (mapi (fun k t => feasible_viol_rb P (xbreaks X t) k (xstrip X t)) (sl_tours S))
  ++ (let S' := strip_sol X S in
      compat_viols P S' ++ group_viols P S' ++ reach_viols P S'
      ++ concat (mapi (fun k t => flat_map (fun d => fst (dim_tour_viol_rb P (xbreaks X t) k (xstrip X t) d)) (seq 0 (xdims P))) (sl_tours S))
      ++ concat (mapi (fun k t => order_viol_rb P (xbreaks X t) k (xstrip X t)) (sl_tours S))
      ++ break_place_viols P S')
  ++ rb_missing_viols X S
  ++ concat (mapi (fun k t => if has_rb X t then reserved_viol P (xbreaks X t) k (xstrip X t) else []) (sl_tours S)).
(* R (C03) *)
Definition replay4 (X : xproblem) (P : pproblem) (S : ssolution) : list violation :=
  concat (mapi (fun k t => replay_tour_rb P (xbreaks X t) (xbends X t) k (xstrip X t)) (sl_tours S)) ++ total_checks S
  ++ concat (mapi (fun k t => flat_map (fun d => snd (dim_tour_viol_rb P (xbreaks X t) k (xstrip X t) d)) (seq 0 (xdims P))) (sl_tours S)).
Definition valid4 (X : xproblem) (P : pproblem) (S : ssolution) : list violation :=
  precond_viol P ++ accounted4 X P S ++ feasible4 X P S ++ replay4 X P S.
