(* C12: single-breach MUTATION OPERATORS on the documents of Spec/Valid.v, one constructor per breach class of the property
   statement, each parameterised by a site (indices into tours / stops / activities / the unassigned list).
   `mutS m S` is the breached solution document, `mutP m P S` the breached problem (only the capacity / limit classes
   touch the problem: the breach is injected by moving the bound just below the value the tour reports).
   Mirrored operator by operator in tools/props/c12.py (`mutate`), which applies the same surgery to the JSON documents that
   are given to the REAL checker; the mirror is validated on every generated site through `sol_fp` / `prob_fp`.
   "Misplaced break" (E2EX3): MBreakLoc (the break is reported at another location), MBreakDup (taken twice), MBreakDrop (taken
   out of the tour).  No proofs in this file. *)
From VRP Require Import Base.Tac Model.Core Spec.Feasible Spec.Valid Spec.Relations.

(* ------------------------------------------------------------------ list surgery *)
Fixpoint upd_nth {A} (n : nat) (f : A -> A) (l : list A) : list A :=
  match l, n with
  | [], _ => []
  | x :: r, O => f x :: r
  | x :: r, S n' => x :: upd_nth n' f r
  end.
Fixpoint del_nth {A} (n : nat) (l : list A) : list A :=
  match l, n with
  | [], _ => []
  | _ :: r, O => r
  | x :: r, S n' => x :: del_nth n' r
  end.
Fixpoint ins_nth {A} (n : nat) (y : A) (l : list A) : list A :=
  match n, l with
  | O, _ => y :: l
  | S _, [] => [y]
  | S n', x :: r => x :: ins_nth n' y r
  end.

(* ------------------------------------------------------------------ field setters *)
Definition set_stops (f : list sstop -> list sstop) (t : stour) : stour :=
  mkSTour (to_vehicle t) (to_type t) (to_shift t) (f (to_stops t)) (to_stat t) (to_xload t).
Definition set_tstat (f : sstat -> sstat) (t : stour) : stour :=
  mkSTour (to_vehicle t) (to_type t) (to_shift t) (to_stops t) (f (to_stat t)) (to_xload t).
Definition set_tours (f : list stour -> list stour) (S : ssolution) : ssolution :=
  mkSSolution (sl_stat S) (f (sl_tours S)) (sl_unassigned S).
Definition set_unassigned (f : list (Z * nat) -> list (Z * nat)) (S : ssolution) : ssolution :=
  mkSSolution (sl_stat S) (sl_tours S) (f (sl_unassigned S)).
Definition upd_stop (k s : nat) (f : sstop -> sstop) (S : ssolution) : ssolution :=
  set_tours (upd_nth k (set_stops (upd_nth s f))) S.

Definition add_load (d : Z) (st : sstop) := mkSStop (ss_loc st) (ss_arr st) (ss_dep st) (ss_load st + d) (ss_dist st) (ss_acts st).
Definition add_dist (d : Z) (st : sstop) := mkSStop (ss_loc st) (ss_arr st) (ss_dep st) (ss_load st) (ss_dist st + d) (ss_acts st).
Definition add_arr (d : Z) (st : sstop) := mkSStop (ss_loc st) (ss_arr st + d) (ss_dep st) (ss_load st) (ss_dist st) (ss_acts st).
Definition set_acts (f : list sact -> list sact) (st : sstop) :=
  mkSStop (ss_loc st) (ss_arr st) (ss_dep st) (ss_load st) (ss_dist st) (f (ss_acts st)).
Definition set_job (j : Z) (a : sact) := mkSAct j (sa_kind a) (sa_loc a) (sa_time a) (sa_tag a).
Definition set_loc (l : Z) (a : sact) := mkSAct (sa_job a) (sa_kind a) (Some l) (sa_time a) (sa_tag a).
(* element n listed twice (the copy right behind the original) *)
Fixpoint dup_at {A} (n : nat) (l : list A) : list A :=
  match l, n with
  | [], _ => []
  | x :: r, O => x :: x :: r
  | x :: r, S n' => x :: dup_at n' r
  end.
Definition is_break_sact (a : sact) : bool := sa_kind a =? 12.
(* reported service interval of an activity of stop st (its own `time`, or the stop's schedule when omitted) *)
Definition act_span (st : sstop) (a : sact) : Z * Z := match sa_time a with Some t => t | None => (ss_arr st, ss_dep st) end.
(* a break activity that takes time (a break of duration 0 can be listed twice / left out without any trace in the document) *)
Definition long_break (st : sstop) (a : sact) : bool := is_break_sact a && (fst (act_span st a) <? snd (act_span st a)).

(* statistic field f (order of stat_fields: 0 cost, 1 distance, 2 duration, 3 driving, 4 serving, 5 waiting, 6 break) += d *)
Definition add_stat (f : nat) (d : Z) (s : sstat) : sstat :=
  match f with
  | 0%nat => mkSStat (st_cost s + d) (st_dist s) (st_dur s) (st_drive s) (st_serve s) (st_wait s) (st_break s)
  | 1%nat => mkSStat (st_cost s) (st_dist s + d) (st_dur s) (st_drive s) (st_serve s) (st_wait s) (st_break s)
  | 2%nat => mkSStat (st_cost s) (st_dist s) (st_dur s + d) (st_drive s) (st_serve s) (st_wait s) (st_break s)
  | 3%nat => mkSStat (st_cost s) (st_dist s) (st_dur s) (st_drive s + d) (st_serve s) (st_wait s) (st_break s)
  | 4%nat => mkSStat (st_cost s) (st_dist s) (st_dur s) (st_drive s) (st_serve s + d) (st_wait s) (st_break s)
  | 5%nat => mkSStat (st_cost s) (st_dist s) (st_dur s) (st_drive s) (st_serve s) (st_wait s + d) (st_break s)
  | _ => mkSStat (st_cost s) (st_dist s) (st_dur s) (st_drive s) (st_serve s) (st_wait s) (st_break s + d)
  end.

(* ------------------------------------------------------------------ site lookups *)
Definition tour_at (S : ssolution) (k : nat) : option stour := nth_error (sl_tours S) k.
Definition stop_at (S : ssolution) (k s : nat) : option sstop :=
  match tour_at S k with Some t => nth_error (to_stops t) s | None => None end.
Definition act_at (S : ssolution) (k s a : nat) : option sact :=
  match stop_at S k s with Some st => nth_error (ss_acts st) a | None => None end.
Definition is_job_act (a : sact) : bool := is_job_kind (sa_kind a).

(* ------------------------------------------------------------------ problem surgery *)
Definition set_cap (c : Z) (vt : pvtype) : pvtype :=
  mkPVType (vt_id vt) (vt_vehicles vt) (vt_shifts vt) c (vt_fixed vt) (vt_cd vt) (vt_ct vt) (vt_skills vt)
           (vt_maxdist vt) (vt_maxdur vt) (vt_toursize vt) (vt_xcap vt).
Definition set_maxdist (x : Z) (vt : pvtype) : pvtype :=
  mkPVType (vt_id vt) (vt_vehicles vt) (vt_shifts vt) (vt_cap vt) (vt_fixed vt) (vt_cd vt) (vt_ct vt) (vt_skills vt)
           (Some x) (vt_maxdur vt) (vt_toursize vt) (vt_xcap vt).
Definition set_maxdur (x : Z) (vt : pvtype) : pvtype :=
  mkPVType (vt_id vt) (vt_vehicles vt) (vt_shifts vt) (vt_cap vt) (vt_fixed vt) (vt_cd vt) (vt_ct vt) (vt_skills vt)
           (vt_maxdist vt) (Some x) (vt_toursize vt) (vt_xcap vt).
Definition set_toursize (x : Z) (vt : pvtype) : pvtype :=
  mkPVType (vt_id vt) (vt_vehicles vt) (vt_shifts vt) (vt_cap vt) (vt_fixed vt) (vt_cd vt) (vt_ct vt) (vt_skills vt)
           (vt_maxdist vt) (vt_maxdur vt) (Some x) (vt_xcap vt).
(* every vehicle type with this id is changed (type ids are unique in a validated problem) *)
Definition upd_type (tid : Z) (g : pvtype -> pvtype) (P : pproblem) : pproblem :=
  mkPProblem (pr_jobs P) (map (fun vt => if vt_id vt =? tid then g vt else vt) (pr_fleet P)) (pr_n P) (pr_dur P) (pr_dist P) (pr_err P).

(* ------------------------------------------------------------------ the breach classes *)
Inductive mutation :=
(* load *)
| MLoad (k s : nat) (d : Z)             (* misreported load: stop s of tour k reports load + d *)
| MCapacity (k s : nat)                 (* load above capacity: the capacity of tour k's vehicle type becomes (load at stop s) - 1 *)
(* job presence *)
| MUnknownAct (k s a : nat) (j : Z)     (* unknown job: activity a of stop s of tour k names the id j that no plan job has *)
| MUnknownUn (j : Z)                    (* unknown job: the unassigned list gets an entry for the id j that no plan job has *)
| MDupAct (k s : nat)                   (* duplicated job: the last activity of stop s of tour k is reported twice *)
| MDupUn (i : nat)                      (* duplicated job: entry i of the unassigned list is listed twice *)
| MDropUn (i : nat)                     (* dropped job: entry i of the unassigned list disappears *)
| MDropStop (k s : nat)                 (* dropped job: stop s of tour k disappears (with its jobs) *)
(* one home only *)
| MCopyStop (k s k2 : nat)              (* job in two tours: stop s of tour k is ALSO visited by tour k2 (inserted as its stop 1) *)
| MMoveStop (k s k2 : nat)              (* job split over tours: stop s of tour k moves to tour k2 (applicable when other
                                           activities of one of its jobs stay behind) *)
| MBoth (k s a : nat)                   (* assigned and unassigned: the job of activity a (stop s, tour k) is also listed unassigned *)
(* arrival / distance / statistic *)
| MArrival (k s : nat) (d : Z)          (* stop s of tour k reports arrival + d *)
| MDistance (k s : nat) (d : Z)         (* stop s of tour k reports cumulative distance + d *)
| MStatTour (k f : nat) (d : Z)         (* field f of the statistic of tour k + d *)
| MStatTotal (f : nat) (d : Z)          (* field f of the overall statistic + d *)
(* limits: the limit of the tour's vehicle type is set just below what the tour reports *)
| MLimitDistance (k : nat)
| MLimitDuration (k : nat)
| MLimitSize (k : nat)
(* misplaced break *)
| MBreakLoc (k s a : nat) (l : Z)       (* activity a (a break) of stop s of tour k is reported at location l, which is not its stop's *)
| MBreakDup (k s a : nat)               (* the break activity a of stop s of tour k is taken twice (copy right behind it) *)
| MBreakDrop (k s a : nat)              (* the break activity a of stop s of tour k disappears (with its stop when it is alone there) *)
(* broken relation (judged by Spec/Relations.v rel_viols, see valid_r below): a stop that serves a job pinned by a relation of
   the plan leaves its tour, or the visiting order of a tour is changed so that the order / the contiguity of the block / its
   anchoring to the departure or the arrival is lost *)
| MRelTour (k s k2 : nat)               (* stop s of tour k moves to tour k2 (inserted as its stop 1): the surgery of MMoveStop *)
| MRelShift (k s s2 : nat)              (* stop s of tour k moves to position s2 of the same tour (counted after taking it out) *).

Definition dup_last {A} (l : list A) : list A := match rev l with [] => l | x :: _ => l ++ [x] end.
Definition dup_nth {A} (i : nat) (l : list A) : list A := match nth_error l i with Some x => l ++ [x] | None => l end.

Definition mutS (m : mutation) (S : ssolution) : ssolution :=
  match m with
  | MLoad k s d => upd_stop k s (add_load d) S
  | MCapacity _ _ => S
  | MUnknownAct k s a j => upd_stop k s (set_acts (upd_nth a (set_job j))) S
  | MUnknownUn j => set_unassigned (fun l => l ++ [(j, 1%nat)]) S
  | MDupAct k s => upd_stop k s (set_acts dup_last) S
  | MDupUn i => set_unassigned (dup_nth i) S
  | MDropUn i => set_unassigned (del_nth i) S
  | MDropStop k s => set_tours (upd_nth k (set_stops (del_nth s))) S
  | MCopyStop k s k2 =>
    match stop_at S k s with
    | Some st => set_tours (upd_nth k2 (set_stops (ins_nth 1 st))) S
    | None => S
    end
  | MMoveStop k s k2 =>
    match stop_at S k s with
    | Some st => set_tours (fun l => upd_nth k2 (set_stops (ins_nth 1 st)) (upd_nth k (set_stops (del_nth s)) l)) S
    | None => S
    end
  | MBoth k s a =>
    match act_at S k s a with
    | Some x => set_unassigned (fun l => l ++ [(sa_job x, 1%nat)]) S
    | None => S
    end
  | MArrival k s d => upd_stop k s (add_arr d) S
  | MDistance k s d => upd_stop k s (add_dist d) S
  | MStatTour k f d => set_tours (upd_nth k (set_tstat (add_stat f d))) S
  | MStatTotal f d => mkSSolution (add_stat f d (sl_stat S)) (sl_tours S) (sl_unassigned S)
  | MLimitDistance _ | MLimitDuration _ | MLimitSize _ => S
  | MBreakLoc k s a l => upd_stop k s (set_acts (upd_nth a (set_loc l))) S
  | MBreakDup k s a => upd_stop k s (set_acts (dup_at a)) S
  | MBreakDrop k s a =>
    match stop_at S k s with
    | Some st => match ss_acts st with
                 | [_] => set_tours (upd_nth k (set_stops (del_nth s))) S
                 | _ => upd_stop k s (set_acts (del_nth a)) S
                 end
    | None => S
    end
  | MRelTour k s k2 =>
    match stop_at S k s with
    | Some st => set_tours (fun l => upd_nth k2 (set_stops (ins_nth 1 st)) (upd_nth k (set_stops (del_nth s)) l)) S
    | None => S
    end
  | MRelShift k s s2 =>
    match stop_at S k s with
    | Some st => set_tours (upd_nth k (set_stops (fun l => ins_nth s2 st (del_nth s l)))) S
    | None => S
    end
  end.

Definition mutP (m : mutation) (P : pproblem) (S : ssolution) : pproblem :=
  match m with
  | MCapacity k s =>
    match tour_at S k, stop_at S k s with
    | Some t, Some st => upd_type (to_type t) (set_cap (ss_load st - 1)) P
    | _, _ => P
    end
  | MLimitDistance k =>
    match tour_at S k with Some t => upd_type (to_type t) (set_maxdist (st_dist (to_stat t) - 1)) P | None => P end
  | MLimitDuration k =>
    match tour_at S k with Some t => upd_type (to_type t) (set_maxdur (st_dur (to_stat t) - 1)) P | None => P end
  | MLimitSize k =>
    match tour_at S k with
    | Some t => upd_type (to_type t) (set_toursize (Z.of_nat (length (job_acts t)) - 1)) P
    | None => P
    end
  | _ => P
  end.

(* ------------------------------------------------------------------ applicable sites *)
Definition has_job_act (st : sstop) : bool := existsb is_job_act (ss_acts st).
Definition has_mid_act (st : sstop) : bool := existsb (fun a => is_mid_kind (sa_kind a)) (ss_acts st).
Definition last_is_job (st : sstop) : bool := match rev (ss_acts st) with a :: _ => is_job_act a | [] => false end.
Definition some_b {A} (o : option A) (f : A -> bool) : bool := match o with Some x => f x | None => false end.

Definition applicable_b (m : mutation) (P : pproblem) (S : ssolution) : bool :=
  match m with
  | MLoad k s d | MDistance k s d => negb (d =? 0) && some_b (stop_at S k s) (fun _ => true)
  | MArrival k s d => negb (d =? 0) && (1 <=? s)%nat && some_b (stop_at S k s) (fun st => match ss_acts st with [] => false | _ => true end)
  | MCapacity k s =>
    (* any stop but a last one that holds the arrival (the final arrival unloads the vehicle); the last stop of an open-ended
       tour counts *)
    some_b (tour_at S k) (fun t => (s + 1 <? length (to_stops t))%nat
                                   || some_b (nth_error (to_stops t) s) (fun st => negb (existsb (fun a => sa_kind a =? 11) (ss_acts st))))
    && some_b (stop_at S k s) (fun _ => true)
  | MUnknownAct k s a j => negb (zmem j (job_ids P)) && some_b (act_at S k s a) is_job_act
  | MUnknownUn j => negb (zmem j (job_ids P))
  | MDupAct k s => some_b (stop_at S k s) last_is_job
  | MDupUn i | MDropUn i => (i <? length (sl_unassigned S))%nat
  | MDropStop k s => some_b (stop_at S k s) has_job_act
  | MCopyStop k s k2 => negb (k =? k2)%nat && some_b (stop_at S k s) has_job_act && some_b (tour_at S k2) (fun _ => true)
  | MMoveStop k s k2 =>
    negb (k =? k2)%nat && some_b (tour_at S k2) (fun _ => true)
    && some_b (tour_at S k) (fun t => some_b (nth_error (to_stops t) s) (fun st =>
         (* a job of the stop keeps another activity in the rest of tour k *)
         existsb (fun a => is_job_act a
                           && existsb (fun f => (fa_job f =? sa_job a)) (job_acts (set_stops (del_nth s) t))) (ss_acts st)))
  | MBoth k s a => some_b (act_at S k s a) is_job_act
  | MStatTour k f d => negb (d =? 0) && (f <? 7)%nat && some_b (tour_at S k) (fun _ => true)
  | MStatTotal f d => negb (d =? 0) && (f <? 7)%nat
  | MLimitDistance k | MLimitDuration k | MLimitSize k => some_b (tour_at S k) (fun _ => true)
  | MBreakLoc k s a l =>
    some_b (stop_at S k s) (fun st => negb (l =? ss_loc st) && some_b (nth_error (ss_acts st) a) is_break_sact)
  | MBreakDup k s a | MBreakDrop k s a => some_b (stop_at S k s) (fun st => some_b (nth_error (ss_acts st) a) (long_break st))
  (* which relation is broken, and how, is decided by rel_viols on the breached document (the sites are proposed by the python
     twin of rel_viols, which is thereby validated on every site); here only: the surgery is defined and changes something *)
  | MRelTour k s k2 => negb (k =? k2)%nat && some_b (stop_at S k s) has_mid_act && some_b (tour_at S k2) (fun _ => true)
  | MRelShift k s s2 => negb (s =? s2)%nat && (1 <=? s)%nat && (1 <=? s2)%nat && some_b (stop_at S k s) has_mid_act
  end.

(* ------------------------------------------------------------------ fingerprints (mirror validation) *)
Definition oz (o : option Z) : list Z := match o with Some x => [1; x] | None => [0] end.
Definition act_numbers (a : sact) : list Z :=
  [sa_job a; sa_kind a] ++ oz (sa_loc a) ++ (match sa_time a with Some (b, e) => [1; b; e] | None => [0] end) ++ oz (sa_tag a).
Definition stop_numbers (s : sstop) : list Z :=
  [ss_loc s; ss_arr s; ss_dep s; ss_load s; ss_dist s; Z.of_nat (length (ss_acts s))] ++ flat_map act_numbers (ss_acts s).
Definition tour_numbers (t : stour) : list Z :=
  [to_vehicle t; to_type t; Z.of_nat (to_shift t); Z.of_nat (length (to_stops t))]
  ++ flat_map stop_numbers (to_stops t) ++ stat_fields (to_stat t).
Definition sol_numbers (S : ssolution) : list Z :=
  stat_fields (sl_stat S) ++ [Z.of_nat (length (sl_tours S))] ++ flat_map tour_numbers (sl_tours S)
  ++ [Z.of_nat (length (sl_unassigned S))] ++ flat_map (fun u => [fst u; Z.of_nat (snd u)]) (sl_unassigned S).
Definition prob_numbers (P : pproblem) : list Z :=
  flat_map (fun vt => [vt_id vt; vt_cap vt] ++ oz (vt_maxdist vt) ++ oz (vt_maxdur vt) ++ oz (vt_toursize vt)) (pr_fleet P).
Definition FPM : Z := 2305843009213693951.
Definition fp (l : list Z) : Z := fold_left (fun h x => (h * 1000003 + x + 17) mod FPM) l 7.
Definition sol_fp (S : ssolution) : Z := fp (sol_numbers S).
Definition prob_fp (P : pproblem) : Z := fp (prob_numbers P).

(* what the correspondence evaluates per case: is the unmutated pair valid, is the site applicable, the verdict of the
   reference semantics on the breached pair, and the fingerprints of the breached documents *)
Definition run_mutation (m : mutation) (P : pproblem) (S : ssolution) :=
  (valid_b P S, applicable_b m P S, valid_b (mutP m P S) (mutS m S), (sol_fp (mutS m S), prob_fp (mutP m P S))).
Definition run_base (P : pproblem) (S : ssolution) := (valid_b P S, summary P S).

(* the same for a problem whose plan has relations: the reference verdict is valid_b plus the pinning rules of Spec/Relations.v
   (rels = [] gives valid_b itself) *)
Definition valid_r (rels : list prel) (P : pproblem) (S : ssolution) : list violation := valid_b P S ++ rel_viols rels S.
Definition run_mutation_r (m : mutation) (rels : list prel) (P : pproblem) (S : ssolution) :=
  (valid_r rels P S, applicable_b m P S, valid_r rels (mutP m P S) (mutS m S), (sol_fp (mutS m S), prob_fp (mutP m P S))).
Definition run_base_r (rels : list prel) (P : pproblem) (S : ssolution) := (valid_r rels P S, summary P S).
