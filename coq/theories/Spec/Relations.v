(* Relation pinning (C01: "relation pinning (vehicle, order, contiguity, departure/arrival anchoring)").
   A relation of the plan (relations.md) names a vehicle, a shift (default 0) and a list of job ids, possibly with the reserved ids
   `departure` (first) and `arrival` (last); its type is
     any      : the jobs are served by that vehicle shift (if they are served at all: locked_jobs.rs keeps them on the vehicle,
                factories.rs puts them into the initial tour but a ruin step may take them out again);
     sequence : ... and in the listed order (other jobs may be served in between); such jobs are never taken out of their tour;
     strict   : ... and without ANY other activity in between (jobs, breaks and reloads alike: Rule::can_insert is asked for
                every inserted activity); with `departure` first nothing may be served before the block, with `arrival` last
                nothing behind it.  (Anchors on `any` / `sequence` relations create no rule in locked_jobs.rs and nothing in the
                documentation gives them a meaning: not checked.)
   A job with several tasks is listed once per task, in task order (factories.rs: the k-th occurrence is the k-th task), so the
   listed ids are exactly the ids of the activities that have to appear.
   Written from relations.md and the three `relation-*.basic.problem.json` examples; no proofs here (Proofs/RelationsP.v). *)
From VRP Require Import Base.Tac Model.Core Spec.Feasible Spec.Intervals Spec.Valid.

Definition REL_DEPARTURE : Z := -10.
Definition REL_ARRIVAL : Z := -11.
(* rl_type: 0 any, 1 sequence, 2 strict; rl_jobs: the listed ids (plan job ids; REL_DEPARTURE / REL_ARRIVAL for the anchors) *)
Record prel := mkPRel { rl_type : Z; rl_vehicle : Z; rl_shift : nat; rl_jobs : list Z }.

Definition rel_ids (r : prel) : list Z := filter (fun j => negb ((j =? REL_DEPARTURE) || (j =? REL_ARRIVAL))) (rl_jobs r).
Definition rel_from_departure (r : prel) : bool := match rl_jobs r with j :: _ => j =? REL_DEPARTURE | [] => false end.
Definition rel_to_arrival (r : prel) : bool := match rev (rl_jobs r) with j :: _ => j =? REL_ARRIVAL | [] => false end.

(* the ids of everything served between departure and arrival, in visiting order (job activities, reloads, breaks) *)
Definition mid_ids (t : stour) : list Z := map fa_job (filter (fun a => is_mid_kind (fa_kind a)) (flat_tour t)).
Definition is_rel_tour (r : prel) (t : stour) : bool := (to_vehicle t =? rl_vehicle r) && (to_shift t =? rl_shift r)%nat.
Definition serves (t : stour) (j : Z) : bool := zmem j (mid_ids t).

Fixpoint prefix_b (l ids : list Z) : bool :=
  match l, ids with
  | [], _ => true
  | _ :: _, [] => false
  | x :: l', y :: ids' => (x =? y) && prefix_b l' ids'
  end.
Fixpoint infix_b (l ids : list Z) : bool :=
  prefix_b l ids || match ids with [] => false | _ :: r => infix_b l r end.
Definition suffix_b (l ids : list Z) : bool := prefix_b (rev l) (rev ids).
Fixpoint list_eqb (a b : list Z) : bool :=
  match a, b with
  | [], [] => true
  | x :: a', y :: b' => (x =? y) && list_eqb a' b'
  | _, _ => false
  end.

(* vehicle: no other tour serves a job of the relation; sequence / strict: the relation's tour serves every one of them *)
Definition rel_vehicle_ok (r : prel) (S : ssolution) : bool :=
  forallb (fun t => is_rel_tour r t || negb (existsb (serves t) (rel_ids r))) (sl_tours S)
  && ((rl_type r =? 0)
      || forallb (fun j => existsb (fun t => is_rel_tour r t && serves t j) (sl_tours S)) (rel_ids r)).
(* order: what the relation's tour serves of the relation's jobs is exactly the listed sequence *)
Definition rel_order_ok (r : prel) (t : stour) : bool :=
  list_eqb (filter (fun x => zmem x (rel_ids r)) (mid_ids t)) (rel_ids r).
Definition rel_contiguous_ok (r : prel) (t : stour) : bool := infix_b (rel_ids r) (mid_ids t).
Definition rel_anchor_ok (r : prel) (t : stour) : bool :=
  (negb (rel_from_departure r) || prefix_b (rel_ids r) (mid_ids t))
  && (negb (rel_to_arrival r) || suffix_b (rel_ids r) (mid_ids t)).

Definition rel_viol (S : ssolution) (k : Z) (r : prel) : list violation :=
  (if rel_vehicle_ok r S then [] else [FRelVehicle k])
  ++ flat_map (fun t =>
       if is_rel_tour r t then
         (if (1 <=? rl_type r) && negb (rel_order_ok r t) then [FRelOrder k] else [])
         ++ (if (rl_type r =? 2) && negb (rel_contiguous_ok r t) then [FRelContiguous k] else [])
         ++ (if (rl_type r =? 2) && negb (rel_anchor_ok r t) then [FRelAnchor k] else [])
       else []) (sl_tours S).
Definition rel_viols (rels : list prel) (S : ssolution) : list violation := concat (mapi (rel_viol S) rels).

(* ---- the declarative statement *)
Definition VehiclePinned (r : prel) (S : ssolution) : Prop :=
  (forall t j, In t (sl_tours S) -> In j (rel_ids r) -> In j (mid_ids t) -> to_vehicle t = rl_vehicle r /\ to_shift t = rl_shift r)
  /\ (rl_type r <> 0 -> forall j, In j (rel_ids r) ->
        exists t, In t (sl_tours S) /\ to_vehicle t = rl_vehicle r /\ to_shift t = rl_shift r /\ In j (mid_ids t)).
Definition InOrder (r : prel) (t : stour) : Prop := filter (fun x => zmem x (rel_ids r)) (mid_ids t) = rel_ids r.
Definition Contiguous (r : prel) (t : stour) : Prop := exists pre post, mid_ids t = pre ++ rel_ids r ++ post.
Definition Anchored (r : prel) (t : stour) : Prop :=
  (rel_from_departure r = true -> exists post, mid_ids t = rel_ids r ++ post)
  /\ (rel_to_arrival r = true -> exists pre, mid_ids t = pre ++ rel_ids r).
Definition RelPinned (S : ssolution) (r : prel) : Prop :=
  VehiclePinned r S
  /\ forall t, In t (sl_tours S) -> to_vehicle t = rl_vehicle r -> to_shift t = rl_shift r ->
       (1 <= rl_type r -> InOrder r t) /\ (rl_type r = 2 -> Contiguous r t /\ Anchored r t).
