(* (S) The shared END-TO-END specification checker: reduced document types for a pragmatic problem and a pragmatic
   solution (integer ids, integer seconds relative to a base date, one routing matrix) and the executable

       valid_b : pproblem -> ssolution -> list violation

   organised in groups with distinct violation constructors (first letter of the constructor = group):
     P  preconditions of the checker itself (not a verdict about the solver: problem outside the supported fragment)
     A  accounting            = property C02, clause by clause              (accounted_b; declarative twin: Accounted)
     F  feasibility inputs    = property C01: `tour_acts` rebuilds the Core `vehicle` and `act` list (start :: jobs ++ end)
                                from the document so that the EXISTING Spec.Feasible.feasible can be evaluated on it,
                                plus skills / limits / shift-window checks                            (feasible_viol)
     R  reproducibility       = property C03: arrival/departure/load/cumulative distance per stop, per-tour and total
                                statistics and cost recomputed from the matrix, the vehicle costs, the reported visiting
                                order and the reported departure time alone; exact equality (integer data); reported tag
                                = tag of the place actually used                                       (replay_viol)
   Written from the property statements and the pragmatic format documentation, NOT from solution_writer.rs (whose
   model is Model/Writer.v).  No proofs in this file (Proofs/ValidP.v).

   Document conventions (rendered by tools/props/e2e.py):
     job ids 1.. in plan order, ids unknown to the problem >= 1000000; activity kinds: 0 pickup, 1 delivery, 2 service,
     3 replacement, 10 departure, 11 arrival, 12 break, 13 reload, 14 recharge, 99 anything else;
     times: seconds relative to the base date; a place without `times` has the single window (-BASE, INF);
     absent shift start latest = INF; loads / capacities: first (only) dimension. *)
From VRP Require Import Base.Tac Model.Core Spec.Feasible Spec.Intervals.

(* ------------------------------------------------------------------ documents *)
Record pplace := mkPPlace { pl_loc : Z; pl_dur : Z; pl_tws : list (Z * Z); pl_tag : option Z }.
Record ptask := mkPTask { tk_kind : Z; tk_places : list pplace; tk_demand : Z }.
(* tasks in the order pickups ++ deliveries ++ replacements ++ services; pj_static: not (pickups and deliveries both present) *)
(* pj_skills = skills.allOf, pj_one = skills.oneOf, pj_none = skills.noneOf (empty list = condition absent);
   pj_xdem: demands in the capacity dimensions 1, 2, ... : one list per extra dimension, one entry per task (task order);
   tk_demand keeps dimension 0 *)
Record pjob := mkPJob { pj_id : Z; pj_tasks : list ptask; pj_static : bool; pj_skills : list Z;
                        pj_one : list Z; pj_none : list Z; pj_group : option Z; pj_compat : option Z;
                        pj_xdem : list (list Z);
                        pj_orders : list Z   (* `order` of every task, task order; 0 = the task has no order *) }.
(* an OPTIONAL break of a vehicle shift: its alternative places (location, duration, tag; pl_loc = NOLOC: the place has no
   location, the break is taken where the previous activity took place); every place carries the break's single `time` as its
   only window; bk_offset: that window is an offset interval relative to the tour's departure time *)
Record pbreak := mkPBreak { bk_places : list pplace; bk_offset : bool }.
(* sh_reloads: the reloads defined for this shift (location, duration, time windows, tag), in document order;
   sh_breaks: its optional breaks, in document order *)
Record pshift := mkPShift { sh_start : Z; sh_earliest : Z; sh_latest : Z; sh_end : option (Z * Z) (* location, latest *);
                            sh_reloads : list pplace; sh_breaks : list pbreak }.
Record pvtype := mkPVType {
  vt_id : Z; vt_vehicles : list Z; vt_shifts : list pshift; vt_cap : Z;
  vt_fixed : Z; vt_cd : Z; vt_ct : Z; vt_skills : list Z;
  vt_maxdist : option Z; vt_maxdur : option Z; vt_toursize : option Z;
  vt_xcap : list Z                 (* capacity in the dimensions 1, 2, ... (vt_cap = dimension 0) *) }.
(* pr_err: the matrix `errorCodes` (row-major like pr_dur; [] = absent): a positive entry marks the leg as unreachable *)
Record pproblem := mkPProblem { pr_jobs : list pjob; pr_fleet : list pvtype; pr_n : Z; pr_dur : list Z; pr_dist : list Z;
                                pr_err : list Z }.

Record sact := mkSAct { sa_job : Z; sa_kind : Z; sa_loc : option Z; sa_time : option (Z * Z); sa_tag : option Z }.
Record sstat := mkSStat { st_cost : Z; st_dist : Z; st_dur : Z; st_drive : Z; st_serve : Z; st_wait : Z; st_break : Z }.
Record sstop := mkSStop { ss_loc : Z; ss_arr : Z; ss_dep : Z; ss_load : Z; ss_dist : Z; ss_acts : list sact }.
(* to_xload: reported loads in the dimensions 1, 2, ...: one list per extra dimension, one entry per stop (ss_load = dimension 0) *)
Record stour := mkSTour { to_vehicle : Z; to_type : Z; to_shift : nat; to_stops : list sstop; to_stat : sstat;
                          to_xload : list (list Z) }.
(* unassigned: job id, number of reasons *)
Record ssolution := mkSSolution { sl_stat : sstat; sl_tours : list stour; sl_unassigned : list (Z * nat) }.

Inductive violation :=
(* P: the checker's own preconditions *)
| PTasksAmbiguous (job : Z)       (* two tasks of one kind in a job share a location: activities cannot be attributed *)
| PDuplicateJobId (job : Z)
| PDiagonal                       (* matrix diagonal not zero / matrix size wrong *)
| PRouting (tour : Z)             (* general routing data (Spec/ValidTD.v: several profiles / scale / time-dependent matrices):
                                     no provider can be built (tour = -1), or a leg of the tour has no value or a non-integer
                                     value at its departure time: outside the fragment in which equality is exact *)
(* A: accounting (C02) *)
| AJobLost (job : Z)              (* plan job neither in a tour nor unassigned *)
| AJobDuplicated (job : Z)        (* in two tours, in a tour and unassigned, or twice unassigned *)
| AJobIncomplete (job : Z)        (* not every task exactly once in its tour *)
| AJobOrder (job : Z)             (* a pickup after a delivery of the same job *)
| AJobNoReason (job : Z)          (* unassigned without a reason *)
| AForeignJob (job : Z)           (* an id that is not a plan job appears *)
| ATourVehicle (tour : Z)         (* tour names an unknown type / vehicle / shift *)
| ATourEmpty (tour : Z)           (* tour serves no job *)
| AShiftTwice (tour : Z)          (* the vehicle shift of this tour already drives an earlier tour *)
| AExtraActivity (tour : Z)       (* break / recharge / unknown activity that no shift of the fragment defines *)
| AReload (tour : Z)              (* the reload activities of the tour are not DISTINCT reloads defined for its vehicle shift *)
| ABreak (tour : Z)               (* the break activities of the tour are not DISTINCT breaks defined for its vehicle shift *)
(* F: feasibility inputs (C01) *)
| FNoTour (tour : Z)              (* the tour cannot be rebuilt: structure (departure first, arrival last iff the shift has an
                                     end), unknown job, or no place of the job's task matches location/duration/time *)
| FInfeasible (tour : Z)          (* the rebuilt tour fails Spec.Feasible.time_feasible: a time window or the shift end *)
| FCapacity (tour : Z)            (* the rebuilt tour fails the capacity per reload interval, Spec.Intervals.ivl_load_feasible
                                     (= Spec.Feasible.load_feasible for a tour without reloads); dimension 0 *)
| FSkills (tour : Z) (job : Z)
| FMaxDistance (tour : Z)
| FMaxDuration (tour : Z)
| FTourSize (tour : Z)
| FShiftStart (tour : Z)          (* departure outside [earliest, latest] or not from the shift's start location *)
| FEndLocation (tour : Z)
| FCompatibility (tour : Z)       (* two jobs of the tour carry different compatibility classes *)
| FGroup (group : Z)              (* jobs of one group are served by two different tours *)
| FUnreachable (tour : Z) (act : Z)   (* the leg arriving at flattened activity `act` is marked unreachable by errorCodes *)
| FCapacityDim (tour : Z) (dim : Z)   (* the load exceeds the capacity in dimension dim >= 1 somewhere in the tour *)
| FOrder (tour : Z)               (* task `order` (a hard rule unless a tour-order objective is given): a task is served after
                                     one with a higher order value, or a task without order before one with an order *)
| FBreakPlace (tour : Z) (act : Z)  (* the break at flattened activity `act` is at a location that no place of a break of the
                                     shift allows: a place with a location must be used there, a place without location where
                                     the previous activity took place (with the place's duration and a window of the break) *)
(* F, relations (Spec/Relations.v): pinning of the jobs named by a relation of the plan; rel = index of the relation *)
| FRelVehicle (rel : Z)           (* a job of the relation is served by a tour of another vehicle shift, or (sequence / strict)
                                     is not served at all *)
| FRelOrder (rel : Z)             (* sequence / strict: the activities of the relation's jobs are not served in the listed order *)
| FRelContiguous (rel : Z)        (* strict: another activity is served in between *)
| FRelAnchor (rel : Z)            (* strict with `departure` / `arrival`: not directly behind the departure / before the arrival *)
(* R: reproducibility (C03) *)
| RNoReplay (tour : Z)            (* as FNoTour: nothing to replay *)
| RArrival (tour : Z) (act : Z)   (* reported arrival at an activity (stop arrival / end of the previous activity) <> replay *)
| RDeparture (tour : Z) (act : Z) (* reported end of an activity <> replay *)
| RStopDeparture (tour : Z) (stop : Z)  (* stop departure <> end of its last activity *)
| RActLocation (tour : Z) (stop : Z)    (* an activity of the stop is reported at another location (no commute in this fragment) *)
| RLoad (tour : Z) (stop : Z)
| RDistance (tour : Z) (stop : Z)
| RTag (tour : Z) (act : Z)       (* reported tag is not the tag of a place of the task with the used location, duration, window *)
| RStatDistance (tour : Z) | RStatDuration (tour : Z) | RStatDriving (tour : Z) | RStatServing (tour : Z)
| RStatWaiting (tour : Z) | RStatBreak (tour : Z) | RStatCost (tour : Z)
| RLoadDim (tour : Z) (dim : Z) (stop : Z)   (* as RLoad, in capacity dimension dim >= 1 *)
| RTotal (field : Z)              (* overall statistic field (0 cost,1 distance,2 duration,3 driving,4 serving,5 waiting,6 break) <> sum of tours *)
(* round four (Spec/ValidX.v): replacement tasks / mixed jobs, required breaks, vicinity clustering, recharge stations *)
| AJobMixedOrder (job : Z)        (* jobs.md "Mixing job tasks": a pickup of the job is served after a delivery, replacement or
                                     service of the same job *)
| ARequiredBreak (tour : Z)       (* the break activities / transit stops of a tour whose shift defines REQUIRED breaks are not
                                     DISTINCT required breaks of that very shift (duration = the break's duration, start inside
                                     [earliest, latest], relative to the tour's departure for an offset time), or they overlap *)
| FRequiredBreakMissing (tour : Z)  (* a required break whose latest start lies inside the tour's time span is not taken *)
| AClusterMember (tour : Z) (act : Z)  (* vicinity clustering: flattened activity `act` carries commute information (it is served
                                     as a member of a cluster) but its job cannot be clustered: not a plan job with exactly one
                                     task (clustering.md: "only jobs with single task can be clustered"), or listed in
                                     filtering.excludeJobIds *)
| FClusterThreshold (tour : Z) (act : Z)  (* a clustered activity lies farther from its stop's location (the cluster's centre) than
                                     clustering.threshold allows: duration or distance, there or back *)
| FClusterWindow (tour : Z) (act : Z)  (* tour with clustered stops: the reported service start of the activity lies in no time window
                                     of a place (at its location) of the task it serves *)
| RParking (tour : Z) (stop : Z)  (* reported parking of the stop is not [arrival, arrival + clustering.serving.parking] *)
| RCommute (tour : Z) (act : Z)   (* the commute information of the activity does not fit: forward = from where the driver is, at
                                     the moment he is free, matrix distance and duration, over before the service starts; backward
                                     = from the end of the service, matrix distance and duration; with visiting = return every
                                     forward commute has a backward one; or the activity is somewhere else without a commute *)
| RStopArrival (tour : Z) (stop : Z)  (* tour with clustered stops: stop arrival <> departure of the previous stop + travel time
                                     between the two stop locations *)
| RStatCommuting (tour : Z) | RStatParking (tour : Z)   (* the commuting / parking part of the statistic *)
| ARecharge (tour : Z)            (* the recharge activities of the tour are not DISTINCT stations defined for its vehicle shift *)
| FRechargeDistance (tour : Z)    (* the distance driven without a recharge exceeds recharges.maxDistance *)
| FReservedTime (tour : Z) (act : Z)  (* the reserved time of a required break is used for something else: between the reported
                                     start and end of activity `act` (flattened index in the tour without its break activities)
                                     there is less time outside the breaks than its place's duration, or between the previous
                                     activity's end and its arrival less than the travel time *)
.

(* ------------------------------------------------------------------ small helpers *)
Definition zmem (j : Z) (l : list Z) : bool := existsb (Z.eqb j) l.
Definition pmat (n : Z) (m : list Z) (i j : Z) : Z := nth (Z.to_nat (i * n + j)) m 0.
(* the routing data as the problem reader hands it to the solver: an entry whose errorCodes value is positive reads -1
   (fleet_reader.rs create_transport_costs); without errorCodes the matrix itself *)
Definition perr (P : pproblem) (i j : Z) : Z := pmat (pr_n P) (pr_err P) i j.
Definition pmat_e (P : pproblem) (m : list Z) (i j : Z) : Z := if 0 <? perr P i j then -1 else pmat (pr_n P) m i j.
Definition pdur (P : pproblem) := pmat_e P (pr_dur P).
Definition pdist (P : pproblem) := pmat_e P (pr_dist P).
Definition NEGT : Z := - INF.

Fixpoint mapi_from {A B} (k : Z) (f : Z -> A -> B) (l : list A) : list B :=
  match l with [] => [] | x :: r => f k x :: mapi_from (k + 1) f r end.
Definition mapi {A B} (f : Z -> A -> B) (l : list A) : list B := mapi_from 0 f l.

Definition is_job_kind (k : Z) : bool := (0 <=? k) && (k <=? 3).
Definition find_job (P : pproblem) (j : Z) : option pjob := find (fun job => pj_id job =? j) (pr_jobs P).
Definition job_ids (P : pproblem) : list Z := map pj_id (pr_jobs P).

(* ------------------------------------------------------------------ flattened activities *)
(* every activity with the data it inherits from its stop: location, reported arrival (stop arrival for the first
   activity of a stop, end of the previous activity otherwise), reported service interval (its own `time`, or the stop's
   schedule when omitted) *)
Record fact := mkFAct { fa_job : Z; fa_kind : Z; fa_loc : Z; fa_arr : Z; fa_start : Z; fa_end : Z;
                        fa_tag : option Z; fa_stop : Z }.

Fixpoint flat_acts (s : sstop) (k : Z) (arr : Z) (l : list sact) : list fact :=
  match l with
  | [] => []
  | a :: r =>
    let loc := match sa_loc a with Some x => x | None => ss_loc s end in
    let '(b, e) := match sa_time a with Some t => t | None => (ss_arr s, ss_dep s) end in
    mkFAct (sa_job a) (sa_kind a) loc arr b e (sa_tag a) k :: flat_acts s k e r
  end.
Definition flat_stop (k : Z) (s : sstop) : list fact := flat_acts s k (ss_arr s) (ss_acts s).
Definition flat_tour (t : stour) : list fact := concat (mapi flat_stop (to_stops t)).

Definition job_acts (t : stour) : list fact := filter (fun a => is_job_kind (fa_kind a)) (flat_tour t).
Definition acts_of (j : Z) (t : stour) : list fact := filter (fun a => fa_job a =? j) (job_acts t).

(* the place was used at this activity: location, duration and a window that explains the reported service start *)
Definition place_fits (a : fact) (p : pplace) : bool := (pl_loc p =? fa_loc a) && (pl_dur p =? fa_end a - fa_start a).
Definition win_fits (a : fact) (w : Z * Z) : bool := fa_start a =? Z.max (fa_arr a) (fst w).

(* ================================================================== A: accounting (C02) *)
(* an activity can be attributed to a task: same kind, performed at the location of one of the task's places *)
Definition task_matches (tk : ptask) (a : fact) : bool :=
  (tk_kind tk =? fa_kind a) && existsb (fun p => pl_loc p =? fa_loc a) (tk_places tk).

(* all tasks exactly once: as many activities as tasks, and every task is matched by exactly one of them *)
Definition complete_b (job : pjob) (acts : list fact) : bool :=
  (length acts =? length (pj_tasks job))%nat &&
  forallb (fun tk => (length (filter (task_matches tk) acts) =? 1)%nat) (pj_tasks job).

(* pickups before deliveries: once a delivery of the job happened, no pickup of it follows *)
Fixpoint order_b (acts : list fact) : bool :=
  match acts with
  | [] => true
  | a :: r => (if fa_kind a =? 1 then forallb (fun b => negb (fa_kind b =? 0)) r else true) && order_b r
  end.

Definition tours_with (j : Z) (S : ssolution) : list stour :=
  filter (fun t => match acts_of j t with [] => false | _ => true end) (sl_tours S).
Definition unassigned_of (j : Z) (S : ssolution) : list (Z * nat) := filter (fun u => fst u =? j) (sl_unassigned S).

Definition job_viol (S : ssolution) (job : pjob) : list violation :=
  let j := pj_id job in
  match tours_with j S, unassigned_of j S with
  | [], [] => [AJobLost j]
  | [], [u] => if (1 <=? snd u)%nat then [] else [AJobNoReason j]
  | [t], [] => (if complete_b job (acts_of j t) then [] else [AJobIncomplete j])
               ++ (if order_b (acts_of j t) then [] else [AJobOrder j])
  | _, _ => [AJobDuplicated j]
  end.

Definition foreign_viol (P : pproblem) (S : ssolution) : list violation :=
  flat_map (fun t => flat_map (fun a => if zmem (fa_job a) (job_ids P) then [] else [AForeignJob (fa_job a)]) (job_acts t))
           (sl_tours S)
  ++ flat_map (fun u => if zmem (fst u) (job_ids P) then [] else [AForeignJob (fst u)]) (sl_unassigned S).

Definition vtype_of (P : pproblem) (t : stour) : option pvtype :=
  find (fun vt => (vt_id vt =? to_type t) && zmem (to_vehicle t) (vt_vehicles vt)
                  && (to_shift t <? length (vt_shifts vt))%nat) (pr_fleet P).
Definition shift_of (P : pproblem) (t : stour) : option (pvtype * pshift) :=
  match vtype_of P t with
  | Some vt => match nth_error (vt_shifts vt) (to_shift t) with Some sh => Some (vt, sh) | None => None end
  | None => None
  end.

Definition same_shift (a b : stour) : bool := (to_vehicle a =? to_vehicle b) && (to_shift a =? to_shift b)%nat.
Definition shift_key (t : stour) : Z * nat := (to_vehicle t, to_shift t).   (* the vehicle shift a tour is driven by *)
Definition extra_kind (k : Z) : bool := negb (is_job_kind k || (k =? 10) || (k =? 11) || (k =? 13) || (k =? 12)).

(* reloads: every reload activity of a tour is one of the reloads defined for the tour's vehicle shift (same location,
   duration = reported service time, a window that explains the reported start), and no defined reload is used twice *)
Definition reload_acts (t : stour) : list fact := filter (fun a => fa_kind a =? 13) (flat_tour t).
Definition reload_fits (a : fact) (p : pplace) : bool := place_fits a p && existsb (win_fits a) (pl_tws p).
(* all ways to take one element out of a list *)
Fixpoint picks {A} (l : list A) : list (A * list A) :=
  match l with [] => [] | x :: r => (x, r) :: map (fun yr => (fst yr, x :: snd yr)) (picks r) end.
Fixpoint assign_b (acts : list fact) (avail : list pplace) : bool :=
  match acts with
  | [] => true
  | a :: r => existsb (fun pr => reload_fits a (fst pr) && assign_b r (snd pr)) (picks avail)
  end.
Inductive Assign : list fact -> list pplace -> Prop :=
| AsNil avail : Assign [] avail
| AsCons a r pre p post : reload_fits a p = true -> Assign r (pre ++ post) -> Assign (a :: r) (pre ++ p :: post).

Definition reloads_ok (P : pproblem) (t : stour) : bool :=
  match shift_of P t with Some (_, sh) => assign_b (reload_acts t) (sh_reloads sh) | None => true end.
Definition ReloadsDefined (P : pproblem) (t : stour) : Prop :=
  forall vt sh, shift_of P t = Some (vt, sh) -> Assign (reload_acts t) (sh_reloads sh).

(* breaks: every break activity of a tour is one of the optional breaks defined for the tour's vehicle shift (a place of it with
   the reported service time and - when the place has one - the reported location; the break's window, taken relative to the
   tour's departure when it is an offset interval, explains the reported start), and no defined break is taken twice.
   Where a place WITHOUT location may be used is a feasibility rule (group F, FBreakPlace), not an accounting one. *)
Definition BREAK_JOB : Z := -12.      (* the job id a break activity is rendered with *)
Definition NOLOC : Z := -1.           (* pl_loc of a break place without location *)
Definition tour_dep (l : list fact) : Z := match l with d :: _ => fa_end d | [] => 0 end.   (* departure time of the tour *)
Definition shift_tws (d : Z) (p : pplace) : pplace :=
  mkPPlace (pl_loc p) (pl_dur p) (map (fun w => (fst w + d, snd w + d)) (pl_tws p)) (pl_tag p).
Definition at_loc (l : Z) (p : pplace) : pplace := if pl_loc p =? NOLOC then mkPPlace l (pl_dur p) (pl_tws p) (pl_tag p) else p.
(* the places of break b as absolute places for a tour that departs at dep, a place without location put at location l *)
Definition break_places (dep l : Z) (b : pbreak) : list pplace :=
  map (fun p => at_loc l (if bk_offset b then shift_tws dep p else p)) (bk_places b).
Definition break_acts (t : stour) : list fact := filter (fun a => fa_kind a =? 12) (flat_tour t).
Definition break_fits (dep : Z) (a : fact) (b : pbreak) : bool := existsb (reload_fits a) (break_places dep (fa_loc a) b).
(* generic version of assign_b / Assign: every activity gets its own fitting item *)
Fixpoint gassign_b {X} (fits : fact -> X -> bool) (acts : list fact) (avail : list X) : bool :=
  match acts with
  | [] => true
  | a :: r => existsb (fun pr => fits a (fst pr) && gassign_b fits r (snd pr)) (picks avail)
  end.
Inductive GAssign {X} (fits : fact -> X -> bool) : list fact -> list X -> Prop :=
| GAsNil avail : GAssign fits [] avail
| GAsCons a r pre p post : fits a p = true -> GAssign fits r (pre ++ post) -> GAssign fits (a :: r) (pre ++ p :: post).
Definition breaks_ok (P : pproblem) (t : stour) : bool :=
  match shift_of P t with
  | Some (_, sh) => gassign_b (break_fits (tour_dep (flat_tour t))) (break_acts t) (sh_breaks sh)
  | None => true
  end.
Definition BreaksDefined (P : pproblem) (t : stour) : Prop :=
  forall vt sh, shift_of P t = Some (vt, sh) -> GAssign (break_fits (tour_dep (flat_tour t))) (break_acts t) (sh_breaks sh).

(* tours with the list of the tours before them *)
Fixpoint tour_viols (P : pproblem) (k : Z) (before : list stour) (l : list stour) : list violation :=
  match l with
  | [] => []
  | t :: r =>
    (match shift_of P t with Some _ => [] | None => [ATourVehicle k] end)
    ++ (match job_acts t with [] => [ATourEmpty k] | _ => [] end)
    ++ (if existsb (same_shift t) before then [AShiftTwice k] else [])
    ++ (if existsb (fun a => extra_kind (fa_kind a)) (flat_tour t) then [AExtraActivity k] else [])
    ++ (if reloads_ok P t then [] else [AReload k])
    ++ (if breaks_ok P t then [] else [ABreak k])
    ++ tour_viols P (k + 1) (before ++ [t]) r
  end.

Definition accounted_b (P : pproblem) (S : ssolution) : list violation :=
  flat_map (job_viol S) (pr_jobs P) ++ foreign_viol P S ++ tour_viols P 0 [] (sl_tours S).

(* ---- the declarative statement (C02), clause by clause *)
Definition Complete (job : pjob) (acts : list fact) : Prop :=
  length acts = length (pj_tasks job) /\
  forall tk, In tk (pj_tasks job) -> length (filter (task_matches tk) acts) = 1%nat.
Definition PickupsFirst (acts : list fact) : Prop :=
  forall l1 a l2 b l3, acts = l1 ++ a :: l2 ++ b :: l3 -> fa_kind a = 1 -> fa_kind b <> 0.

Definition JobAccounted (S : ssolution) (job : pjob) : Prop :=
  let j := pj_id job in
  (* completely in exactly one tour, on one vehicle shift, and not unassigned *)
  (exists t, tours_with j S = [t] /\ unassigned_of j S = [] /\ Complete job (acts_of j t) /\ PickupsFirst (acts_of j t))
  \/ (* or exactly once in the unassigned list, with at least one reason, and in no tour *)
  (exists u, tours_with j S = [] /\ unassigned_of j S = [u] /\ (1 <= snd u)%nat).

Definition TourNamesShift (P : pproblem) (t : stour) : Prop :=
  exists vt sh, In vt (pr_fleet P) /\ vt_id vt = to_type t /\ In (to_vehicle t) (vt_vehicles vt)
                /\ nth_error (vt_shifts vt) (to_shift t) = Some sh.

Record Accounted (P : pproblem) (S : ssolution) : Prop := mkAccounted {
  acc_jobs : forall job, In job (pr_jobs P) -> JobAccounted S job;
  acc_no_foreign_act : forall t a, In t (sl_tours S) -> In a (job_acts t) -> In (fa_job a) (job_ids P);
  acc_no_foreign_un : forall u, In u (sl_unassigned S) -> In (fst u) (job_ids P);
  acc_tour_shift : forall t, In t (sl_tours S) -> TourNamesShift P t;
  acc_tour_serves : forall t, In t (sl_tours S) -> job_acts t <> [];
  acc_shift_once : NoDup (map shift_key (sl_tours S));      (* no vehicle shift drives two tours *)
  (* no shift of the supported fragment defines a recharge, so none may appear (nor an activity of an unknown type) *)
  acc_no_extra : forall t a, In t (sl_tours S) -> In a (flat_tour t) -> extra_kind (fa_kind a) = false;
  (* every reload stop corresponds to a distinct reload defined for that very vehicle shift *)
  acc_reloads : forall t, In t (sl_tours S) -> ReloadsDefined P t;
  (* every break corresponds to a distinct break defined for that very vehicle shift *)
  acc_breaks : forall t, In t (sl_tours S) -> BreaksDefined P t
}.

(* ================================================================== P: preconditions *)
Definition task_locs (tk : ptask) : list Z := map pl_loc (tk_places tk).
Fixpoint tasks_distinct (l : list ptask) : bool :=
  match l with
  | [] => true
  | tk :: r => forallb (fun tk' => negb (tk_kind tk =? tk_kind tk') || negb (existsb (fun x => zmem x (task_locs tk')) (task_locs tk))) r
               && tasks_distinct r
  end.
Fixpoint dup_ids (l : list Z) : list Z :=
  match l with [] => [] | x :: r => (if zmem x r then [x] else []) ++ dup_ids r end.
Definition diag_zero (P : pproblem) : bool :=
  (0 <? pr_n P) && (match pr_err P with [] => true | l => (length l =? Z.to_nat (pr_n P * pr_n P))%nat end) && (length (pr_dur P) =? Z.to_nat (pr_n P * pr_n P))%nat && (length (pr_dist P) =? Z.to_nat (pr_n P * pr_n P))%nat
  && forallb (fun i => (pdur P i i =? 0) && (pdist P i i =? 0)) (map Z.of_nat (seq 0 (Z.to_nat (pr_n P)))).
Definition precond_viol (P : pproblem) : list violation :=
  flat_map (fun job => if tasks_distinct (pj_tasks job) then [] else [PTasksAmbiguous (pj_id job)]) (pr_jobs P)
  ++ map PDuplicateJobId (dup_ids (job_ids P))
  ++ (if diag_zero P then [] else [PDiagonal]).

(* ================================================================== F: rebuilding the tour (C01 inputs) *)
Definition demand_of (job : pjob) (tk : ptask) : demand :=
  let q := tk_demand tk in
  if tk_kind tk =? 0 then (if pj_static job then mkDemand q 0 0 0 else mkDemand 0 q 0 0)
  else if tk_kind tk =? 1 then (if pj_static job then mkDemand 0 0 q 0 else mkDemand 0 0 0 q)
  else if tk_kind tk =? 3 then mkDemand q 0 q 0
  else dzero.

Definition win_open (a : fact) (w : Z * Z) : bool := win_fits a w && (fa_arr a <=? snd w).

(* candidates (task, place, window) of the job for activity a, in document order *)
Definition candidates (job : pjob) (a : fact) : list (ptask * pplace * (Z * Z)) :=
  flat_map (fun tk => if tk_kind tk =? fa_kind a then
              flat_map (fun p => if place_fits a p then map (fun w => (tk, p, w)) (filter (win_fits a) (pl_tws p)) else [])
                       (tk_places tk)
            else []) (pj_tasks job).
(* prefer a window that was still open at the reported arrival; otherwise the first one that explains the times
   (the tour is then infeasible, which is for `feasible` to say) *)
(* a reload activity (kind 13, rendered with job id RELOAD_JOB) is attributed to the pseudo job whose single task offers the
   reloads of the shift as its places *)
Definition reload_job (sh : pshift) : pjob := mkPJob RELOAD_JOB [mkPTask 13 (sh_reloads sh) 0] true [] [] [] None None [] [].
(* a break activity (kind 12, rendered with job id BREAK_JOB) is attributed to the pseudo job whose single task offers every
   place of every break of the shift (offset windows already made absolute by abs_shift; a place without location is offered
   at the activity's own location: whether it may be used there is FBreakPlace's question) *)
Definition break_job (sh : pshift) (a : fact) : pjob :=
  mkPJob BREAK_JOB [mkPTask 12 (flat_map (break_places 0 (fa_loc a)) (sh_breaks sh)) 0] true [] [] [] None None [] [].
Definition abs_break (dep : Z) (b : pbreak) : pbreak :=
  if bk_offset b then mkPBreak (map (shift_tws dep) (bk_places b)) false else b.
(* the shift with the offset windows of its breaks made absolute for a tour that departs at dep *)
Definition abs_shift (dep : Z) (sh : pshift) : pshift :=
  mkPShift (sh_start sh) (sh_earliest sh) (sh_latest sh) (sh_end sh) (sh_reloads sh) (map (abs_break dep) (sh_breaks sh)).
Definition job_for (P : pproblem) (sh : pshift) (a : fact) : option pjob :=
  if fa_kind a =? 13 then (if fa_job a =? RELOAD_JOB then Some (reload_job sh) else None)
  else if fa_kind a =? 12 then (if fa_job a =? BREAK_JOB then Some (break_job sh a) else None)
  else find_job P (fa_job a).
Definition match_act (P : pproblem) (sh : pshift) (a : fact) : option (pjob * ptask * pplace * (Z * Z)) :=
  match job_for P sh a with
  | None => None
  | Some job =>
    let cs := candidates job a in
    match find (fun c => win_open a (snd c)) cs with
    | Some (tk, p, w) => Some (job, tk, p, w)
    | None => match cs with (tk, p, w) :: _ => Some (job, tk, p, w) | [] => None end
    end
  end.

Definition act_of_match (a : fact) (m : pjob * ptask * pplace * (Z * Z)) : act :=
  let '(job, tk, p, w) := m in
  mkAct (fa_job a) (fa_loc a) (pl_dur p) (fst w) (snd w) (demand_of job tk) (fa_arr a) (fa_end a).

Fixpoint match_all (P : pproblem) (sh : pshift) (l : list fact) : option (list (fact * (pjob * ptask * pplace * (Z * Z)))) :=
  match l with
  | [] => Some []
  | a :: r => match match_act P sh a, match_all P sh r with
              | Some m, Some ms => Some ((a, m) :: ms)
              | _, _ => None
              end
  end.

Definition is_mid_kind (k : Z) : bool := is_job_kind k || (k =? 13) || (k =? 12).
(* split the flattened tour into departure, job / reload / break activities, optional arrival *)
Definition split_tour (has_end : bool) (l : list fact) : option (fact * list fact * option fact) :=
  match l with
  | [] => None
  | d :: r =>
    if negb (fa_kind d =? 10) then None else
    if has_end then
      match rev r with
      | e :: jr => if (fa_kind e =? 11) && forallb (fun a => is_mid_kind (fa_kind a)) jr then Some (d, rev jr, Some e) else None
      | [] => None
      end
    else if forallb (fun a => is_mid_kind (fa_kind a)) r then Some (d, r, None) else None
  end.

Definition vehicle_of (vt : pvtype) (sh : pshift) : vehicle :=
  mkVeh (match sh_end sh with Some (_, latest) => latest | None => INF end) (vt_cap vt)
        (vt_fixed vt) (vt_cd vt) (vt_ct vt) (vt_ct vt) (vt_ct vt).

Record rebuilt := mkRebuilt {
  rb_vt : pvtype; rb_shift : pshift; rb_veh : vehicle;
  rb_dep : fact; rb_jobs : list (fact * (pjob * ptask * pplace * (Z * Z))); rb_arr : option fact;
  rb_acts : list act           (* start :: jobs ++ end, schedules as reported *)
}.

Definition rebuild (P : pproblem) (t : stour) : option rebuilt :=
  match shift_of P t with
  | None => None
  | Some (vt, sh) =>
    let has_end := match sh_end sh with Some _ => true | None => false end in
    match split_tour has_end (flat_tour t) with
    | None => None
    | Some (d, js, e) =>
      match match_all P (abs_shift (fa_end d) sh) js with
      | None => None
      | Some ms =>
        let start := mkAct (-1) (fa_loc d) 0 (sh_earliest sh) (sh_latest sh) dzero (fa_start d) (fa_end d) in
        let fin := match e, sh_end sh with
                   | Some x, Some (_, latest) => [mkAct (-1) (fa_loc x) 0 NEGT latest dzero (fa_arr x) (fa_end x)]
                   | _, _ => []
                   end in
        Some (mkRebuilt vt sh (vehicle_of vt sh) d ms e (start :: map (fun am => act_of_match (fst am) (snd am)) ms ++ fin))
      end
    end
  end.

(* THE interface for C01: the Core vehicle and activity list of a reported tour *)
Definition tour_acts (P : pproblem) (t : stour) : option (vehicle * list act) :=
  match rebuild P t with Some r => Some (rb_veh r, rb_acts r) | None => None end.

(* ---- independent replay of the schedule from the matrix, the visiting order and the reported departure *)
Fixpoint replay_from (dur : Z -> Z -> Z) (loc dep : Z) (acts : list act) : list (Z * Z) :=
  match acts with
  | [] => []
  | a :: r => let arr := dep + dur loc (a_loc a) in
              let d := Z.max arr (a_tws a) + a_svc a in
              (arr, d) :: replay_from dur (a_loc a) d r
  end.
(* (arrival, departure) per activity; the start keeps its reported schedule *)
Definition replay (dur : Z -> Z -> Z) (t : list act) : list (Z * Z) :=
  match t with [] => [] | s :: r => (a_arr s, a_dep s) :: replay_from dur (a_loc s) (a_dep s) r end.

Fixpoint legs_sum (m : Z -> Z -> Z) (loc : Z) (acts : list act) : Z :=
  match acts with [] => 0 | a :: r => m loc (a_loc a) + legs_sum m (a_loc a) r end.
Definition tour_legs (m : Z -> Z -> Z) (t : list act) : Z := match t with [] => 0 | s :: r => legs_sum m (a_loc s) r end.
Definition sumz (l : list Z) : Z := fold_right Z.add 0 l.

Definition replay_duration (dur : Z -> Z -> Z) (t : list act) : Z :=
  match t with [] => 0 | s :: _ => snd (last (replay dur t) (0, 0)) - a_dep s end.
Definition replay_serving (t : list act) : Z := sumz (map a_svc (tl t)).
Definition replay_waiting (dur : Z -> Z -> Z) (t : list act) : Z :=
  sumz (map (fun ax => Z.max (fst (snd ax)) (a_tws (fst ax)) - fst (snd ax)) (tl (combine t (replay dur t)))).

(* allOf: every listed skill is a vehicle skill; oneOf (when present): at least one is; noneOf: none is *)
Definition skills_ok (vt : pvtype) (job : pjob) : bool :=
  forallb (fun s => zmem s (vt_skills vt)) (pj_skills job)
  && (match pj_one job with [] => true | l => existsb (fun s => zmem s (vt_skills vt)) l end)
  && forallb (fun s => negb (zmem s (vt_skills vt))) (pj_none job).
Definition le_opt (x : Z) (lim : option Z) : bool := match lim with Some l => x <=? l | None => true end.

(* Spec.Feasible.feasible with the capacity checked per reload interval; equal to it for a tour without reload activities
   (Proofs/ValidP.v feasible_x_single) *)
Definition feasible_x (dur : Z -> Z -> Z) (v : vehicle) (t : list act) : bool :=
  time_feasible dur t && ivl_load_feasible (v_cap v) t.

Definition feasible_viol (P : pproblem) (k : Z) (t : stour) : list violation :=
  match rebuild P t with
  | None => [FNoTour k]
  | Some r =>
    let acts := rb_acts r in
    let vt := rb_vt r in let sh := rb_shift r in
    (if time_feasible (pdur P) acts then [] else [FInfeasible k])
    ++ (if ivl_load_feasible (v_cap (rb_veh r)) acts then [] else [FCapacity k])
    ++ flat_map (fun am => let '(job, _, _, _) := snd am in if skills_ok vt job then [] else [FSkills k (pj_id job)]) (rb_jobs r)
    ++ (if le_opt (tour_legs (pdist P) acts) (vt_maxdist vt) then [] else [FMaxDistance k])
    ++ (if le_opt (replay_duration (pdur P) acts) (vt_maxdur vt) then [] else [FMaxDuration k])
    ++ (if le_opt (Z.of_nat (length (rb_jobs r))) (vt_toursize vt) then [] else [FTourSize k])
    ++ (if (fa_loc (rb_dep r) =? sh_start sh) && (sh_earliest sh <=? fa_end (rb_dep r)) && (fa_end (rb_dep r) <=? sh_latest sh)
        then [] else [FShiftStart k])
    ++ (match rb_arr r, sh_end sh with
        | Some e, Some (l, _) => if fa_loc e =? l then [] else [FEndLocation k]
        | _, _ => []
        end)
  end.

(* ================================================================== R: reproducibility (C03) *)
(* load on board after each activity: everything to deliver from the depot is on board at the start; the final
   arrival unloads the vehicle *)
Fixpoint loads_from (l : Z) (acts : list act) : list Z :=
  match acts with
  | [] => []
  | a :: r => let l' := l + d_change (a_dem a) in l' :: loads_from l' r
  end.
Definition replay_loads (has_end : bool) (t : list act) : list Z :=
  let ls := loads_from (total_static_delivery t) t in
  if has_end then removelast ls ++ [0] else ls.
(* the same per reload interval: at a reload the static pickups are unloaded and the static deliveries of the next interval
   are loaded (the load reported at the reload activity is the load the vehicle leaves the reload place with) *)
Definition replay_loads_x (has_end : bool) (t : list act) : list Z :=
  let ls := ivl_loads_of t in
  if has_end then removelast ls ++ [0] else ls.

Fixpoint cum_from (m : Z -> Z -> Z) (loc acc : Z) (acts : list act) : list Z :=
  match acts with [] => [] | a :: r => let d := acc + m loc (a_loc a) in d :: cum_from m (a_loc a) d r end.
Definition replay_cumdist (m : Z -> Z -> Z) (t : list act) : list Z :=
  match t with [] => [] | s :: r => 0 :: cum_from m (a_loc s) 0 r end.

(* tags a job activity may carry: those of the places of its task that fit location, duration and some window *)
Definition fitting_tags (tk : ptask) (a : fact) : list (option Z) :=
  map pl_tag (filter (fun p => place_fits a p && existsb (win_fits a) (pl_tws p)) (tk_places tk)).
Definition opt_eqb (x y : option Z) : bool :=
  match x, y with Some a, Some b => a =? b | None, None => true | _, _ => false end.

(* per flattened activity i (0 = departure): reported vs replayed *)
Definition act_checks (k : Z) (facts : list fact) (rep : list (Z * Z)) : list violation :=
  concat (mapi (fun i fr => let '(f, (arr, dep)) := fr in
                            (if (i =? 0) || (fa_arr f =? arr) then [] else [RArrival k i])
                            ++ (if fa_end f =? dep then [] else [RDeparture k i]))
               (combine facts rep)).

(* per stop: the index (in the flattened list) of its last activity *)
Fixpoint last_index_of_stop (s : Z) (facts : list fact) (i : Z) (acc : option Z) : option Z :=
  match facts with
  | [] => acc
  | f :: r => last_index_of_stop s r (i + 1) (if fa_stop f =? s then Some i else acc)
  end.
Definition nth_z {A} (l : list A) (i : Z) (d : A) : A := nth (Z.to_nat i) l d.

Definition stop_checks (k : Z) (t : stour) (facts : list fact) (rep : list (Z * Z)) (loads cum : list Z) : list violation :=
  concat (mapi (fun s st =>
    (if forallb (fun a => match sa_loc a with Some l => l =? ss_loc st | None => true end) (ss_acts st) then [] else [RActLocation k s])
    ++ match last_index_of_stop s facts 0 None with
       | None => [RStopDeparture k s]        (* a stop without activities *)
       | Some i =>
         (if ss_dep st =? snd (nth_z rep i (0, 0)) then [] else [RStopDeparture k s])
         ++ (if ss_load st =? nth_z loads i 0 then [] else [RLoad k s])
         ++ (if ss_dist st =? nth_z cum i 0 then [] else [RDistance k s])
       end) (to_stops t)).

Definition tag_checks (k : Z) (ms : list (fact * (pjob * ptask * pplace * (Z * Z)))) : list violation :=
  concat (mapi (fun i am => let '(a, (_, tk, _, _)) := am in
                            if existsb (opt_eqb (fa_tag a)) (fitting_tags tk a) then [] else [RTag k (i + 1)]) ms).

(* the time spent in breaks is reported in the `break` part of the statistic and not in `serving` *)
Definition is_break_act (a : act) : bool := a_job a =? BREAK_JOB.
Definition replay_break (t : list act) : Z := sumz (map a_svc (filter is_break_act (tl t))).
Definition replay_stat (P : pproblem) (vt : pvtype) (acts : list act) : sstat :=
  let dist := tour_legs (pdist P) acts in
  let dur := replay_duration (pdur P) acts in
  mkSStat (vt_fixed vt + dist * vt_cd vt + dur * vt_ct vt) dist dur
          (tour_legs (pdur P) acts) (replay_serving acts - replay_break acts) (replay_waiting (pdur P) acts) (replay_break acts).

Definition stat_checks (k : Z) (rep got : sstat) : list violation :=
  (if st_dist got =? st_dist rep then [] else [RStatDistance k])
  ++ (if st_dur got =? st_dur rep then [] else [RStatDuration k])
  ++ (if st_drive got =? st_drive rep then [] else [RStatDriving k])
  ++ (if st_serve got =? st_serve rep then [] else [RStatServing k])
  ++ (if st_wait got =? st_wait rep then [] else [RStatWaiting k])
  ++ (if st_break got =? st_break rep then [] else [RStatBreak k])
  ++ (if st_cost got =? st_cost rep then [] else [RStatCost k]).

Definition replay_tour (P : pproblem) (k : Z) (t : stour) : list violation :=
  match rebuild P t with
  | None => [RNoReplay k]
  | Some r =>
    let acts := rb_acts r in
    let has_end := match rb_arr r with Some _ => true | None => false end in
    let facts := rb_dep r :: map fst (rb_jobs r) ++ (match rb_arr r with Some e => [e] | None => [] end) in
    let rep := replay (pdur P) acts in
    act_checks k facts rep
    ++ stop_checks k t facts rep (replay_loads_x has_end acts) (replay_cumdist (pdist P) acts)
    ++ tag_checks k (rb_jobs r)
    ++ stat_checks k (replay_stat P (rb_vt r) acts) (to_stat t)
  end.

Definition stat_fields (s : sstat) : list Z := [st_cost s; st_dist s; st_dur s; st_drive s; st_serve s; st_wait s; st_break s].
Definition stat_add (a b : sstat) : sstat :=
  mkSStat (st_cost a + st_cost b) (st_dist a + st_dist b) (st_dur a + st_dur b) (st_drive a + st_drive b)
          (st_serve a + st_serve b) (st_wait a + st_wait b) (st_break a + st_break b).
Definition stat0 : sstat := mkSStat 0 0 0 0 0 0 0.
Definition total_checks (S : ssolution) : list violation :=
  let sum := fold_left stat_add (map to_stat (sl_tours S)) stat0 in
  concat (mapi (fun i xy => if fst xy =? snd xy then [] else [RTotal i]) (combine (stat_fields (sl_stat S)) (stat_fields sum))).

Definition replay_viol (P : pproblem) (S : ssolution) : list violation :=
  concat (mapi (replay_tour P) (sl_tours S)) ++ total_checks S.
Definition feasible_viols (P : pproblem) (S : ssolution) : list violation :=
  concat (mapi (feasible_viol P) (sl_tours S)).

(* ================================================================== X: the rules added with the wider generator *)
(* ---- compatibility: jobs with different compatibility classes never share a tour (jobs without a class mix freely) *)
Definition tour_job_ids (t : stour) : list Z := map fa_job (job_acts t).
Definition opt_of {A} (P : pproblem) (f : pjob -> option A) (j : Z) : option A :=
  match find_job P j with Some job => f job | None => None end.
Fixpoint somes {A} (l : list (option A)) : list A :=
  match l with [] => [] | Some x :: r => x :: somes r | None :: r => somes r end.
Definition tour_compats (P : pproblem) (t : stour) : list Z := somes (map (opt_of P pj_compat) (tour_job_ids t)).
Definition all_same (l : list Z) : bool := match l with [] => true | x :: r => forallb (Z.eqb x) r end.
Definition compat_viols (P : pproblem) (S : ssolution) : list violation :=
  concat (mapi (fun k t => if all_same (tour_compats P t) then [] else [FCompatibility k]) (sl_tours S)).
Definition Compatible (P : pproblem) (t : stour) : Prop :=
  forall c1 c2, In c1 (tour_compats P t) -> In c2 (tour_compats P t) -> c1 = c2.

(* ---- groups: all assigned jobs of one group are in ONE tour *)
Definition tour_groups (P : pproblem) (t : stour) : list Z := somes (map (opt_of P pj_group) (tour_job_ids t)).
Fixpoint group_viols_from (P : pproblem) (before : list Z) (l : list stour) : list violation :=
  match l with
  | [] => []
  | t :: r => let gs := tour_groups P t in
              map FGroup (nodup Z.eq_dec (filter (fun g => zmem g before) gs)) ++ group_viols_from P (before ++ gs) r
  end.
Definition group_viols (P : pproblem) (S : ssolution) : list violation := group_viols_from P [] (sl_tours S).
Definition Grouped (P : pproblem) (S : ssolution) : Prop :=
  forall k1 k2 t1 t2 g, nth_error (sl_tours S) k1 = Some t1 -> nth_error (sl_tours S) k2 = Some t2 ->
                        In g (tour_groups P t1) -> In g (tour_groups P t2) -> k1 = k2.

(* ---- reachability: no leg of the reported visiting order (consecutive flattened activities) is marked unreachable *)
Fixpoint legs_viol (P : pproblem) (k i : Z) (loc : Z) (l : list fact) : list violation :=
  match l with
  | [] => []
  | a :: r => (if 0 <? perr P loc (fa_loc a) then [FUnreachable k i] else []) ++ legs_viol P k (i + 1) (fa_loc a) r
  end.
Definition reach_viol (P : pproblem) (k : Z) (t : stour) : list violation :=
  match flat_tour t with [] => [] | d :: r => legs_viol P k 1 (fa_loc d) r end.
Definition reach_viols (P : pproblem) (S : ssolution) : list violation := concat (mapi (reach_viol P) (sl_tours S)).
Definition Reachable (P : pproblem) (t : stour) : Prop :=
  forall l1 a b l2, flat_tour t = l1 ++ a :: b :: l2 -> perr P (fa_loc a) (fa_loc b) <= 0.

(* ---- capacity in the dimensions 1, 2, ...: the problem and the tour are PROJECTED on one extra dimension and the very same
        single-dimension machinery (rebuild, Spec.Feasible.load_feasible, replay_loads) is applied to the projection *)
Fixpoint mapn_from {A B} (i : nat) (f : nat -> A -> B) (l : list A) : list B :=
  match l with [] => [] | x :: r => f i x :: mapn_from (S i) f r end.
Definition dim_task (xs : list Z) (i : nat) (tk : ptask) : ptask := mkPTask (tk_kind tk) (tk_places tk) (nth i xs 0).
Definition dim_job (d : nat) (job : pjob) : pjob :=
  mkPJob (pj_id job) (mapn_from 0 (dim_task (nth d (pj_xdem job) [])) (pj_tasks job)) (pj_static job) (pj_skills job)
         (pj_one job) (pj_none job) (pj_group job) (pj_compat job) [] (pj_orders job).
Definition dim_vtype (d : nat) (vt : pvtype) : pvtype :=
  mkPVType (vt_id vt) (vt_vehicles vt) (vt_shifts vt) (nth d (vt_xcap vt) 0) (vt_fixed vt) (vt_cd vt) (vt_ct vt) (vt_skills vt)
           (vt_maxdist vt) (vt_maxdur vt) (vt_toursize vt) [].
Definition dim_problem (d : nat) (P : pproblem) : pproblem :=
  mkPProblem (map (dim_job d) (pr_jobs P)) (map (dim_vtype d) (pr_fleet P)) (pr_n P) (pr_dur P) (pr_dist P) (pr_err P).
Definition dim_stop (xs : list Z) (i : nat) (s : sstop) : sstop :=
  mkSStop (ss_loc s) (ss_arr s) (ss_dep s) (nth i xs 0) (ss_dist s) (ss_acts s).
Definition dim_tour (d : nat) (t : stour) : stour :=
  mkSTour (to_vehicle t) (to_type t) (to_shift t) (mapn_from 0 (dim_stop (nth d (to_xload t) [])) (to_stops t)) (to_stat t) [].
(* number of extra dimensions of the problem *)
Definition xdims (P : pproblem) : nat := fold_right Nat.max 0%nat (map (fun vt => length (vt_xcap vt)) (pr_fleet P)).

Definition load_checks (k dz : Z) (t : stour) (facts : list fact) (loads : list Z) : list violation :=
  concat (mapi (fun s st => match last_index_of_stop s facts 0 None with
                            | None => []
                            | Some i => if ss_load st =? nth_z loads i 0 then [] else [RLoadDim k dz s]
                            end) (to_stops t)).
(* one tour, one extra dimension d (0-based; reported as dimension d + 1) *)
Definition dim_tour_viol (P : pproblem) (k : Z) (t : stour) (d : nat) : list violation * list violation :=
  let dz := Z.of_nat d + 1 in
  match rebuild (dim_problem d P) (dim_tour d t) with
  | None => ([], [])                       (* FNoTour / RNoReplay already say so: the projection keeps places and times *)
  | Some r =>
    let has_end := match rb_arr r with Some _ => true | None => false end in
    let facts := rb_dep r :: map fst (rb_jobs r) ++ (match rb_arr r with Some e => [e] | None => [] end) in
    ((if ivl_load_feasible (v_cap (rb_veh r)) (rb_acts r) then [] else [FCapacityDim k dz]),
     load_checks k dz (dim_tour d t) facts (replay_loads_x has_end (rb_acts r)))
  end.
Definition dims_feasible_viols (P : pproblem) (S : ssolution) : list violation :=
  concat (mapi (fun k t => flat_map (fun d => fst (dim_tour_viol P k t d)) (seq 0 (xdims P))) (sl_tours S)).
Definition dims_replay_viols (P : pproblem) (S : ssolution) : list violation :=
  concat (mapi (fun k t => flat_map (fun d => snd (dim_tour_viol P k t d)) (seq 0 (xdims P))) (sl_tours S)).

(* ---- task order: goal_reader.rs adds the HARD tour-order constraint whenever some task has an `order` and the objectives
        (default here) contain no tour-order objective: along a tour the order values never decrease, tasks without order come
        last; reload / break activities are ignored.  The orders reach the rebuilt activities by the projection trick: the
        problem whose task "demand" is the task's order. *)
Definition order_job (job : pjob) : pjob :=
  mkPJob (pj_id job) (mapn_from 0 (dim_task (pj_orders job)) (pj_tasks job)) (pj_static job) (pj_skills job)
         (pj_one job) (pj_none job) (pj_group job) (pj_compat job) [] (pj_orders job).
Definition order_problem (P : pproblem) : pproblem :=
  mkPProblem (map order_job (pr_jobs P)) (pr_fleet P) (pr_n P) (pr_dur P) (pr_dist P) (pr_err P).
Definition okey (o : Z) : Z := if o =? 0 then INF else o.
Definition order_seq (r : rebuilt) : list Z :=
  map (fun am => let '(_, tk, _, _) := snd am in okey (tk_demand tk))
      (filter (fun am => is_job_kind (fa_kind (fst am))) (rb_jobs r)).
Fixpoint sorted_b (l : list Z) : bool :=
  match l with [] => true | a :: r => forallb (fun b => a <=? b) r && sorted_b r end.
Definition order_viol (P : pproblem) (k : Z) (t : stour) : list violation :=
  match rebuild (order_problem P) t with
  | None => []                          (* FNoTour says so *)
  | Some r => if sorted_b (order_seq r) then [] else [FOrder k]
  end.
Definition order_viols (P : pproblem) (S : ssolution) : list violation := concat (mapi (order_viol P) (sl_tours S)).
Definition Sorted (l : list Z) : Prop := forall l1 a l2 b l3, l = l1 ++ a :: l2 ++ b :: l3 -> a <= b.

(* ---- break placement (vehicles.md: "If location of a break is omitted then break is stick to location of a job served
        before break"): a break activity uses a place of a break of its shift - duration, a window (relative to the tour's
        departure for an offset break) that explains the reported start - AT that place's location, or, for a place without
        location, at the location of the previous activity of the tour.  (The break's time window itself is checked like a
        job's: the rebuilt break activity carries it, FInfeasible.) *)
Definition break_placed (sh : pshift) (dep prev : Z) (a : fact) : bool :=
  existsb (fun b => existsb (reload_fits a) (break_places dep prev b)) (sh_breaks sh).
Fixpoint bplace_viol (sh : pshift) (dep k i prev : Z) (l : list fact) : list violation :=
  match l with
  | [] => []
  | a :: r => (if (fa_kind a =? 12) && negb (break_placed sh dep prev a) then [FBreakPlace k i] else [])
              ++ bplace_viol sh dep k (i + 1) (fa_loc a) r
  end.
Definition break_place_viol (P : pproblem) (k : Z) (t : stour) : list violation :=
  match shift_of P t, flat_tour t with
  | Some (_, sh), d :: r => bplace_viol sh (fa_end d) k 1 (fa_loc d) r
  | _, _ => []
  end.
Definition break_place_viols (P : pproblem) (S : ssolution) : list violation := concat (mapi (break_place_viol P) (sl_tours S)).
Definition BreaksPlaced (P : pproblem) (t : stour) : Prop :=
  forall vt sh l1 a b l2, shift_of P t = Some (vt, sh) -> flat_tour t = l1 ++ a :: b :: l2 -> fa_kind b = 12 ->
    exists bk p, In bk (sh_breaks sh) /\ In p (break_places (tour_dep (flat_tour t)) (fa_loc a) bk) /\ reload_fits b p = true.

(* group F, second part (C01) and group R, second part (C03) *)
Definition xfeasible_viols (P : pproblem) (S : ssolution) : list violation :=
  compat_viols P S ++ group_viols P S ++ reach_viols P S ++ dims_feasible_viols P S ++ order_viols P S
  ++ break_place_viols P S.
Definition xreplay_viols (P : pproblem) (S : ssolution) : list violation := dims_replay_viols P S.

(* ================================================================== the checker *)
Definition valid_b (P : pproblem) (S : ssolution) : list violation :=
  precond_viol P ++ accounted_b P S ++ feasible_viols P S ++ replay_viol P S ++ xfeasible_viols P S ++ xreplay_viols P S.

(* a compact per-solution summary used by the plugins for the input-distribution statistics:
   (number of tours, job activities, unassigned jobs, total waiting replayed) *)
Definition summary (P : pproblem) (S : ssolution) : list Z :=
  [Z.of_nat (length (sl_tours S)); Z.of_nat (length (flat_map job_acts (sl_tours S))); Z.of_nat (length (sl_unassigned S))].
