(* The independent step-by-step simulation the properties refer to: walk the tour from the start departure, compute
   arrivals and loads, check every time window (the end activity's window end is the shift end) and the capacity at
   every point.  Written from the problem statement, not from the evaluator. No proofs here. *)
From VRP Require Import Base.Tac Model.Core.

Section WithRouting.
Variable dur : Z -> Z -> Z.

(* times: the vehicle is at `loc`, leaves at `dep`, still has to visit `acts` *)
Fixpoint sim_time (loc dep : Z) (acts : list act) : bool :=
  match acts with
  | [] => true
  | a :: r => let arr := dep + dur loc (a_loc a) in
              (arr <=? a_twe a) && sim_time (a_loc a) (Z.max arr (a_tws a) + a_svc a) r
  end.

(* loads: `load` is on board before `acts` *)
Fixpoint sim_load (cap load : Z) (acts : list act) : bool :=
  match acts with
  | [] => true
  | a :: r => let l := load + d_change (a_dem a) in (l <=? cap) && sim_load cap l r
  end.

Definition total_static_delivery (t : list act) : Z := fold_right (fun a acc => d_ds (a_dem a) + acc) 0 t.

Definition time_feasible (t : list act) : bool :=
  match t with [] => false | s :: r => sim_time (a_loc s) (a_dep s) r end.
Definition load_feasible (cap : Z) (t : list act) : bool :=
  let l0 := total_static_delivery t in (l0 <=? cap) && sim_load cap l0 t.
Definition feasible (v : vehicle) (t : list act) : bool := time_feasible t && load_feasible (v_cap v) t.

End WithRouting.
