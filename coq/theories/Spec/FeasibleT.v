(* The independent step-by-step simulation for tours of a vehicle with REQUIRED BREAKS (reserved times) and / or TIME-DEPENDENT
   travel times.  Written from the documentation (docs/src/concepts/pragmatic/problem/vehicles.md "required break": the break is
   guaranteed, lasts `duration`, starts inside [earliest, latest]; routing matrices with a `timestamp`: travel times of a departure
   at that time), not from the evaluator:
   * travel from `from` to `to` leaving at time t takes `durD from to t` of driving;
   * a break is a pair (e, d): it is taken at its LATEST start e (what vrp-core plans with) and lasts d.  While it runs the vehicle
     does nothing: driving and service that are under way at e (or would begin at e) are suspended and resume at e + d; waiting
     for a time window goes on during the break; when the window opens while the break is still running, the service starts when
     the break ends (a window that opens exactly when the break starts: the service may start first).  A break that starts
     exactly when a drive / service completes belongs to what follows;
   * every activity must be reached not later than its window end, and its service must start not later than its window end
     (the end activity's window end is the shift end).
   Breaks are sorted by start and do not overlap.  No proofs here. *)
From VRP Require Import Base.Tac Model.Core Spec.Feasible.

Section SimT.
Variable durD : Z -> Z -> Z -> Z.
Variable brs : list (Z * Z).

(* `amount` units of driving / service beginning at `now` *)
Fixpoint work (bs : list (Z * Z)) (now amount : Z) : Z :=
  match bs with
  | [] => now + amount
  | (e, d) :: r => if (now =? e) || ((now <? e) && (e <? now + amount))
                   then work r (e + d) (amount - (e - now))
                   else work r now amount
  end.

(* waiting from `now` until the window opens at `until` *)
Fixpoint wait_from (bs : list (Z * Z)) (now until : Z) : Z :=
  match bs with
  | [] => until
  | (e, d) :: r => if (now <=? e) && (e <? until) && (until <? e + d) then e + d else wait_from r now until
  end.
Definition wait_until (now until : Z) : Z := if until <=? now then now else wait_from brs now until.

(* the vehicle is at `loc`, free at `now`, still has to visit `acts` *)
Fixpoint sim_t (loc now : Z) (acts : list act) : bool :=
  match acts with
  | [] => true
  | a :: r => let arr := work brs now (durD loc (a_loc a) now) in
              let start := wait_until arr (a_tws a) in
              (arr <=? a_twe a) && (start <=? a_twe a) && sim_t (a_loc a) (work brs start (a_svc a)) r
  end.

(* the arrival / service start / departure times the simulation goes through *)
Fixpoint times_t (loc now : Z) (acts : list act) : list (Z * Z * Z) :=
  match acts with
  | [] => []
  | a :: r => let arr := work brs now (durD loc (a_loc a) now) in
              let start := wait_until arr (a_tws a) in
              let dep := work brs start (a_svc a) in
              (arr, start, dep) :: times_t (a_loc a) dep r
  end.

Definition time_feasible_t (t : list act) : bool :=
  match t with [] => false | s :: r => sim_t (a_loc s) (a_dep s) r end.
Definition feasible_t (v : vehicle) (t : list act) : bool := time_feasible_t t && load_feasible (v_cap v) t.
End SimT.
