(* The independent step-by-step notion of Spec/Feasible.v extended with the tour limits, the tour size and the skills rule.
   Written from the documentation's meaning (concepts/pragmatic/problem/vehicles.md: "maxDistance: max tour distance",
   "maxDuration: max tour duration" - "duration" of a tour being what the solution statistic reports: the time between
   leaving the start and finishing the last activity, waiting and service included -, "tourSize: max amount of
   activities in the tour (without departure and arrival)"; jobs.md skills: "allOf / oneOf / noneOf"), NOT from the
   evaluator; the definitions agree with the end-to-end checker Spec/Valid.v (tour_legs / replay_duration / number of
   job activities / skills_ok): Proofs/LimitsValidP.v.  No proofs here. *)
From VRP Require Import Base.Tac Model.Core Spec.Feasible.

(* per vehicle: optional maximum tour distance / duration / number of job activities *)
Record limits := mkLim { l_dist : option Z; l_dur : option Z; l_size : option nat }.
Definition no_limits := mkLim None None None.

(* what a job requires of the vehicle's skill set (an absent list is the empty list) *)
Record skillreq := mkReq { r_all : list Z; r_one : list Z; r_none : list Z }.
Definition no_req := mkReq [] [] [].

Definition zmem (x : Z) (l : list Z) : bool := existsb (Z.eqb x) l.

Section WithRouting.
Variable dur dist : Z -> Z -> Z.

(* the vehicle is at `loc`, leaves at `dep`, still has to visit `acts`: the time at which it has finished the last of them
   (arrive, wait for the window to open, serve) *)
Fixpoint sim_finish (loc dep : Z) (acts : list act) : Z :=
  match acts with
  | [] => dep
  | a :: r => sim_finish (a_loc a) (Z.max (dep + dur loc (a_loc a)) (a_tws a) + a_svc a) r
  end.

(* tour duration: from the departure at the start to the end of the last activity (the arrival at the end location of a
   closed tour - the end activity has no service time and its window opens at 0 -; the last job's departure of an open one) *)
Definition tour_duration (t : list act) : Z :=
  match t with [] => 0 | s :: r => sim_finish (a_loc s) (a_dep s) r - a_dep s end.

(* tour distance: the sum of the legs actually driven *)
Fixpoint legs_from (loc : Z) (acts : list act) : Z :=
  match acts with [] => 0 | a :: r => dist loc (a_loc a) + legs_from (a_loc a) r end.
Definition tour_distance (t : list act) : Z := match t with [] => 0 | s :: r => legs_from (a_loc s) r end.

(* tour size: activities that serve a job (everything except departure and arrival) *)
Definition is_job (a : act) : bool := 0 <=? a_job a.
Definition job_count (t : list act) : nat := length (filter is_job t).

(* skills: the vehicle has every allOf skill, at least one oneOf skill (when any is listed), no noneOf skill *)
Definition SkillsSat (vs : list Z) (r : skillreq) : Prop :=
  (forall s, In s (r_all r) -> In s vs) /\
  (r_one r = [] \/ exists s, In s (r_one r) /\ In s vs) /\
  (forall s, In s (r_none r) -> ~ In s vs).
Definition skills_sat_b (vs : list Z) (r : skillreq) : bool :=
  forallb (fun s => zmem s vs) (r_all r)
  && (match r_one r with [] => true | l => existsb (fun s => zmem s vs) l end)
  && forallb (fun s => negb (zmem s vs)) (r_none r).

Definition le_lim (x : Z) (lim : option Z) : bool := match lim with Some l => x <=? l | None => true end.
Definition le_lim_nat (x : nat) (lim : option nat) : bool := match lim with Some l => (x <=? l)%nat | None => true end.

(* `vs`: the vehicle's skills; `req j`: the requirement of job j *)
Definition FeasibleX (v : vehicle) (lim : limits) (vs : list Z) (req : Z -> skillreq) (t : list act) : Prop :=
  feasible dur v t = true /\
  (forall L, l_dist lim = Some L -> tour_distance t <= L) /\
  (forall L, l_dur lim = Some L -> tour_duration t <= L) /\
  (forall L, l_size lim = Some L -> (job_count t <= L)%nat) /\
  (forall a, In a t -> 0 <= a_job a -> SkillsSat vs (req (a_job a))).

Definition feasible_x_b (v : vehicle) (lim : limits) (vs : list Z) (req : Z -> skillreq) (t : list act) : bool :=
  feasible dur v t
  && le_lim (tour_distance t) (l_dist lim)
  && le_lim (tour_duration t) (l_dur lim)
  && le_lim_nat (job_count t) (l_size lim)
  && forallb (fun a => negb (is_job a) || skills_sat_b vs (req (a_job a))) t.

(* which rule fails (for the correspondence / oracle cross-check): [time+capacity; distance; duration; size; skills], 1 = holds *)
Definition feasible_x_parts (v : vehicle) (lim : limits) (vs : list Z) (req : Z -> skillreq) (t : list act) : list Z :=
  map (fun b : bool => if b then 1 else 0)
    [feasible dur v t; le_lim (tour_distance t) (l_dist lim); le_lim (tour_duration t) (l_dur lim);
     le_lim_nat (job_count t) (l_size lim); forallb (fun a => negb (is_job a) || skills_sat_b vs (req (a_job a))) t].

(* ---- strict locks (relations of type `strict`, models/domain.rs Lock / LockDetail with LockOrder::Strict): the listed jobs
   form ONE contiguous block of the served activities, in the listed order; anchored right after the departure
   (LockPosition::Departure), right before the arrival / at the end of an open tour (Arrival), both (Fixed) or nowhere (Any) *)
Inductive lockpos := LAny | LDeparture | LArrival | LFixed.
Record lockrule := mkRule { lr_pos : lockpos; lr_jobs : list Z }.

(* the job activities of a tour (ids), in order *)
Definition served (t : list act) : list Z := map a_job (filter is_job t).

Definition anchored (pos : lockpos) (pre post : list Z) : Prop :=
  match pos with
  | LAny => True
  | LDeparture => pre = []
  | LArrival => post = []
  | LFixed => pre = [] /\ post = []
  end.

Definition LockOk (r : lockrule) (t : list act) : Prop :=
  exists pre post, served t = pre ++ lr_jobs r ++ post /\ anchored (lr_pos r) pre post.

End WithRouting.
