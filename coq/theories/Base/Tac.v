(* Common imports and arithmetic set-up for the whole development (no axioms). *)
From Coq Require Export List ZArith Lia Bool Arith PeanoNat.
From Coq Require Export ZifyBool ZifyNat.
Export ListNotations.
#[global] Open Scope Z_scope.
Ltac Zify.zify_post_hook ::= Z.div_mod_to_equations.

Lemma compopp_eq c : CompOpp c = Eq <-> c = Eq.
Proof. destruct c; cbn; split; congruence. Qed.
