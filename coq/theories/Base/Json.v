(* C11 — JSON value trees and the scalar carriers of the serde codec model (no proofs here except the
   proof fields of the bounded-integer records, which are boolean equalities).

   json    : the value tree `serde_json` hands to / receives from the derived (de)serialisers.
             Numbers: JInt z   = a literal without fraction/exponent that fits u64/i64 (what serde_json
                                 classifies as PosInt/NegInt),
                      JFlt m e = a float literal with the exact value m / 2^e (every finite f64 is of
                                 this form; the decimal text layer is not modelled, see notes/C11.md).
             Objects keep their key order and duplicates (list of pairs): serde sees them in document order.
   i64/usize/i32 : Rust's bounded integers as Z with a boolean range proof, so that the Coq type has
             exactly the values of the Rust type (no well-formedness side conditions in the theorems).
   fl      : finite f64 values as dyadic rationals m / 2^e (non-finite floats cannot come out of
             `serde_json` parsing and are excluded by the type). *)
From Coq Require Export String Ascii.
From VRP Require Import Base.Tac.

Inductive json :=
| JNull
| JBool (b : bool)
| JInt (z : Z)
| JFlt (m : Z) (e : nat)
| JStr (s : string)
| JArr (l : list json)
| JObj (l : list (string * json)).

Definition is_null (j : json) : bool := match j with JNull => true | _ => false end.

Fixpoint jdepth (j : json) : nat :=
  match j with
  | JArr l => S (fold_right (fun a n => Nat.max (jdepth a) n) 0%nat l)
  | JObj l => S (fold_right (fun a n => Nat.max (jdepth (snd a)) n) 0%nat l)
  | _ => 0%nat
  end.

(* ---- bounded integers ---- *)
Definition in_i64 (z : Z) : bool := (-9223372036854775808 <=? z) && (z <=? 9223372036854775807).
Definition in_usize (z : Z) : bool := (0 <=? z) && (z <=? 18446744073709551615).
Definition in_i32 (z : Z) : bool := (-2147483648 <=? z) && (z <=? 2147483647).

Record i64 := Mk_i64 { i64v : Z; i64ok : in_i64 i64v = true }.
Record usize := Mk_usize { usizev : Z; usizeok : in_usize usizev = true }.
Record i32 := Mk_i32 { i32v : Z; i32ok : in_i32 i32v = true }.

Definition to_i64 (z : Z) : option i64 :=
  (if in_i64 z as b return (in_i64 z = b -> option i64)
   then fun H => Some (Mk_i64 z H) else fun _ => None) eq_refl.
Definition to_usize (z : Z) : option usize :=
  (if in_usize z as b return (in_usize z = b -> option usize)
   then fun H => Some (Mk_usize z H) else fun _ => None) eq_refl.
Definition to_i32 (z : Z) : option i32 :=
  (if in_i32 z as b return (in_i32 z = b -> option i32)
   then fun H => Some (Mk_i32 z H) else fun _ => None) eq_refl.

Definition i64_zero : i64 := Mk_i64 0 eq_refl.
Definition usize_zero : usize := Mk_usize 0 eq_refl.
Definition i32_zero : i32 := Mk_i32 0 eq_refl.

(* ---- finite floats ---- *)
Record fl := Mk_fl { flm : Z; fle : nat }.
Definition fl_of_Z (z : Z) : fl := Mk_fl z 0.

(* string helpers *)
Definition smem (k : string) (ns : list string) : bool := existsb (String.eqb k) ns.
