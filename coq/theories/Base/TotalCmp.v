(* f64::total_cmp as an order-isomorphic integer key on the 64-bit pattern.
   Rust (core::f64::total_cmp):
     let mut left = self.to_bits() as i64;  left ^= (((left >> 63) as u64) >> 1) as i64;  left.cmp(&right)
   For bits b < 2^63 (sign clear) the key is b; for b >= 2^63 the low 63 bits are flipped:
   as a signed number that is -(b - 2^63) - 1.   -0.0 = 2^63 |-> -1,  +0.0 = 0 |-> 0. *)
From VRP Require Import Base.Tac.

Definition two63 : Z := 9223372036854775808.
Definition two64 : Z := 18446744073709551616.
Definition fbits_ok (b : Z) : Prop := 0 <= b < two64.

Definition key (b : Z) : Z := if b <? two63 then b else - (b - two63) - 1.
Definition total_cmp (a b : Z) : comparison := Z.compare (key a) (key b).

(* `x == 0.0` on floats: true exactly for the two zero patterns *)
Definition is_zero (b : Z) : bool := (b =? 0) || (b =? two63).
